"""C12 / C13: DOT and Mermaid export declare exactly the admitted nodes and only
edges between them; identifiers are stable.

UniqueDotExporter and MermaidExporter number nodes lazily into a map kept on
the exporter object *while a generator is being consumed*.  So the simulated
system here is one exporter object with several cooperative tasks: a session
opens 1-3 cursors (iter(exporter)) and the seeded scheduler decides which
cursor takes the next step until all are exhausted; between sessions the tree
is mutated (re-parenting, renames, new nodes) and the same exporter object is
iterated again.  Every exhausted cursor's lines are judged against the admitted
sub-forest of the tree as it was during the session.
"""
import gc
import hashlib
import io
import os
import re
import warnings

from anytree.dotexport import RenderTreeGraph
from anytree.exporter import DotExporter, MermaidExporter, UniqueDotExporter

from . import invariants
from .srch import ref_preorder
from .struct import Result, Violation, stable_hash
from anytree import PreOrderIter

from .ops import exec_op
from .world import OpGuard, Watchdog, World

KNOWN_OPEN = set()

NAMES = ("a", "b", "a", "root", "sub 0", 'q"uote', "back\\slash", '\\"', '"', "\\", "ä ö", "日本", "x\ny", "a", "N1", "0x1", "[b]", "(c)",
         "<b>", '<a href="x">', "<>", "{a|b}", "a:b", "#1", "%s", "-->")
# names that are not strings (the exporters render them with str()); written as specs so cfg/ops stay JSON
PY_NAMES = {"True": True, "1": 1, "0": 0, "False": False, "2.0": 2.0, "2": 2, "None": None, "b'x'": b"x", "b'\\xff'": b"\xff", "(1, 2)": (1, 2)}
FORGOTTEN = object()


def nm(spec):
    if isinstance(spec, dict):
        return PY_NAMES[spec["py"]]
    return spec


ID_RE = re.compile(r'^(?:[^"\\]|\\.)+$', re.S)


def ref_esc(s):
    out = []
    for ch in s:
        if ch == "\\" or ch == '"':
            out.append("\\")
        out.append(ch)
    return "".join(out)


def unesc(s):
    out = []
    i = 0
    while i < len(s):
        if s[i] == "\\" and i + 1 < len(s):
            i += 1
        out.append(s[i])
        i += 1
    return "".join(out)


ALPHABET = ("a", "b", "n", "l", "r", "t", "\\", '"', " ", "ä", "N", "0", "x", "\n", "[", "-", ">")


def rand_name(rng):
    return "".join(rng.choice(ALPHABET) for _ in range(rng.choice((0, 1, 1, 2, 2, 3, 4))))


def gen_cfg(rng, prop, tier):
    n = rng.randint(1, 12 if tier == "thorough" else 9)
    big = rng.random() < (0.02 if tier == "thorough" else 0.01)
    if big:
        # large exports: buffering/chunking boundaries of to_file, bounded identifier tables
        n = rng.randint(500, 1200) if prop == "C13" else rng.randint(130, 420)
    huge = big and rng.random() < 0.03
    if huge:
        n = rng.randint(16400, 17500)  # beyond 2**14 entries in any per-exporter table
    parents = [None] + [rng.randrange(i) if rng.random() < 0.92 else None for i in range(1, n)]
    if big:
        parents = [None] + [rng.randrange(max(0, i - 40), i) for i in range(1, n)]
    if huge:
        parents = [None] + [rng.randrange(min(i, 64)) for i in range(1, n)]
    pool = rng.sample(NAMES, rng.randint(2, 8)) + [rand_name(rng) for _ in range(rng.randint(0, 6))]
    if rng.random() < 0.25:
        pool += [{"py": k} for k in rng.sample(sorted(PY_NAMES), rng.randint(2, 5))]
    names = [rng.choice(pool) for _ in range(n)]
    if prop == "C12":
        kind = rng.choice(("dot", "dot", "udot", "udot", "udot", "rtg"))
    else:
        kind = "mermaid"
    height = n
    cfg = {
        "prop": prop,
        "kind": kind,
        "parents": parents,
        "names": names,
        "start": 0 if rng.random() < 0.8 else rng.randrange(n),
        "fset": sorted(i for i in range(n) if rng.random() < 0.2) if rng.random() < 0.6 else None,
        "sset": sorted(i for i in range(n) if rng.random() < 0.2) if rng.random() < 0.6 else None,
        "ml": rng.choice((None, None, None, 0, 1, 2, 3, 4, height + 2)),
        "options": rng.choice((None, None, [], ["rankdir=LR;"], ['node [shape="box"];', "%% c"])),
        "indent": rng.choice((0, 4, 4, 2, 7)),
        "graph": rng.choice(("digraph", "digraph", "graph", "flowchart")),
        "gname": rng.choice(("tree", "tree", "TD", "LR", "g x")),
        "namef": rng.choice((False, False, False, False, False, True, True, True, 2, 2)),
        "attrf": rng.random() < 0.35,
        "eattrf": rng.random() < 0.35,
        "etypef": rng.random() < 0.3,
        "defaults": rng.random() < 0.25,
        "sessions": rng.randint(1, 4),
        "cursors": rng.choice((1, 1, 2, 3)),
        "mut": rng.choice((0, 1, 2, 3)),
        "tofile": rng.random() < 0.3,
        "forget": rng.random() < 0.3,
        "refilter": rng.random() < 0.3,
    }
    if big:
        cfg.update(start=0, fset=None, sset=None, ml=None, sessions=rng.choice((1, 2)), cursors=1, mut=0, tofile=prop == "C13",
                   defaults=rng.random() < 0.7, namef=False, attrf=False, eattrf=False, forget=False, refilter=False, names=["a"] * n)
    cfg["setopt"] = rng.random() < 0.3
    # node classes: plain Node (with hook routing), symbolic links among them, Node exactly as shipped, or a
    # LightNodeMixin class (the two mixins cannot share a tree)
    fam = rng.random()
    classes = ["HNode"] * n
    targets = [None] * n
    if not big:
        if fam < 0.12:
            classes = [rng.choice(("HLight", "HLight", "HLightEq", "HLightBag", "HLightNo"))] * n
        elif fam < 0.36:
            for i in range(1, n):
                if rng.random() < 0.3:
                    classes[i] = "HSym"
                    targets[i] = rng.randrange(i)
        elif fam < 0.44:
            classes = ["PNode"] * n
        elif fam < 0.60:
            # what users build on Node: value equality (hashable or not), container-like, always falsy
            classes = [rng.choice(("HNodeEq", "HNodeUnhash", "HNodeBag", "HNodeNo"))] * n
    cfg["classes"] = classes
    cfg["targets"] = targets
    cfg["faults"] = rng.random() < 0.3  # moves between sessions may be aborted by a raising hook
    cfg["trav"] = 0 if big else rng.choice((0, 0, 0, 1, 2))  # user callables that themselves traverse the tree
    cfg["abandon"] = rng.random() < 0.25  # iterations that are started and never finished
    return cfg


def brief_cfg(cfg):
    return dict(cfg)


class Funcs(object):
    """The user-supplied callables (by node index, so the harness can predict their results)."""

    def __init__(self, cfg, world):
        ix = world.index
        self.ix = ix
        self.fset = None if cfg["fset"] is None else frozenset(cfg["fset"])
        self.sset = None if cfg["sset"] is None else frozenset(cfg["sset"])
        self.filter_ = None if self.fset is None else (lambda nd: ix(nd) not in self.fset)
        self.stop = None if self.sset is None else (lambda nd: ix(nd) in self.sset)
        if cfg["namef"] == 2:
            self.namef = lambda nd: str(nd.name)  # the user's own identifiers need not be injective
        else:
            self.namef = (lambda nd: '%s#%d' % (nd.name, ix(nd))) if cfg["namef"] else None
        self.namef_mode = cfg["namef"]
        if cfg["kind"] == "mermaid":
            self.attrf = (lambda nd: "" if ix(nd) % 4 == 3 else '("%d: %s")' % (ix(nd), nd.name)) if cfg["attrf"] else None
            self.eattrf = (lambda p, c: "--%d.%d-->" % (ix(p), ix(c))) if cfg["eattrf"] else None
            self.etypef = None
        else:
            self.attrf = (lambda nd: "" if ix(nd) % 4 == 3 else 'shape=box,label="%d"' % ix(nd)) if cfg["attrf"] else None
            self.eattrf = (lambda p, c: "" if ix(c) % 3 == 2 else 'label="%d:%d"' % (ix(p), ix(c))) if cfg["eattrf"] else None
            self.etypef = (lambda p, c: "--" if ix(c) % 2 else "->") if cfg["etypef"] else None
        trav = cfg.get("trav", 0)
        if trav:
            # callables that look at the tree before answering (a label showing the subtree size, a filter on leaves ...)
            def touching(f):
                if f is None:
                    return None

                def g(*a):
                    nd = a[-1]
                    if trav == 1:
                        len(nd.descendants), nd.is_leaf, len(nd.leaves)
                    else:
                        nd.size, nd.height, next(iter(PreOrderIter(nd.root)), None), len(nd.path)
                    return f(*a)

                return g

            self.filter_ = touching(self.filter_)
            self.stop = touching(self.stop)
            self.namef = touching(self.namef)
            self.attrf = touching(self.attrf)
            self.eattrf = touching(self.eattrf)
            self.etypef = touching(self.etypef)

    # predictions (harness side)
    def name_of(self, i, names):
        if self.namef_mode == 2:
            return str(names[i])
        return "%s#%d" % (names[i], i)

    def nodeattr_of(self, i, names, kind):
        if i % 4 == 3:
            return ""  # a falsy but non-None result must still appear verbatim
        if kind == "mermaid":
            return '("%d: %s")' % (i, names[i])
        return 'shape=box,label="%d"' % i

    def edge_of(self, p, c, kind):
        if kind == "mermaid":
            return "--%d.%d-->" % (p, c)
        if c % 3 == 2:
            return ""
        return 'label="%d:%d"' % (p, c)

    def etype_of(self, p, c):
        return "--" if c % 2 else "->"


def make_exporter(cfg, world, funcs):
    node = world.nodes[cfg["start"]]
    kind = cfg["kind"]
    if cfg["defaults"]:
        kw = {}
    else:
        kw = {"graph": cfg["graph"], "name": cfg["gname"], "options": cfg["options"], "indent": cfg["indent"]}
    kw.update(filter_=funcs.filter_, stop=funcs.stop, maxlevel=cfg["ml"], nodenamefunc=funcs.namef)
    if kind == "mermaid":
        kw.update(nodefunc=funcs.attrf, edgefunc=funcs.eattrf)
        return MermaidExporter(node, **kw)
    kw.update(nodeattrfunc=funcs.attrf, edgeattrfunc=funcs.eattrf, edgetypefunc=funcs.etypef)
    if kind == "dot":
        return DotExporter(node, **kw)
    if kind == "udot":
        return UniqueDotExporter(node, **kw)
    with warnings.catch_warnings():
        warnings.simplefilter("ignore")
        return RenderTreeGraph(node, **kw)


def effective(cfg):
    return cfg["graph"], cfg["gname"], cfg["options"], cfg["indent"]


def materialise_defaults(live):
    """An exporter built with default arguments: the settings it then carries as public attributes."""
    if live["defaults"]:
        if live["kind"] == "mermaid":
            live.update(graph="graph", gname="TD", options=None, indent=0)
        else:
            live.update(graph="digraph", gname="tree", options=None, indent=4)


def admitted(cfg, snap):
    """(declared nodes in pre-order, depth of each node relative to start)."""
    fset = set(cfg["fset"] or ())
    sset = set(cfg["sset"] or ())
    decl = ref_preorder(snap, cfg["start"], lambda i: i not in fset, sset, cfg["ml"])
    depth = {}
    stack = [(cfg["start"], 0)]
    while stack:
        i, d = stack.pop()
        depth[i] = d
        for c in snap[i][1]:
            stack.append((c, d + 1))
    return decl, depth


class Judge(object):
    """Judges one exhausted cursor. Keeps the identifier map of the exporter
    (node index -> identifier) across cursors and sessions."""

    def __init__(self, cfg, funcs):
        self.cfg = cfg
        self.funcs = funcs
        self.ids = {}
        self.owner = {}

    def bind(self, i, ident, step, where):
        prop = self.cfg["prop"]
        old = self.ids.get(i)
        if old is not None and old != ident:
            raise Violation(prop, "id-unstable", step, "id-unstable", "%s: node %d is called %r, earlier %r" % (where, i, ident, old))
        o = self.owner.get(ident)
        if o is not None and o != i:
            raise Violation(prop, "id-collision", step, "id-collision", "%s: identifier %r stands for node %d and node %d" % (where, ident, o, i))
        self.ids[i] = ident
        self.owner[ident] = i

    def judge(self, step, lines, snap, names, res):
        cfg, funcs = self.cfg, self.funcs
        prop, kind = cfg["prop"], cfg["kind"]
        graph, gname, options, indent_n = effective(cfg)
        indent = " " * indent_n
        ctx = "step %d %s(start=%d, filter-out=%r, stop=%r, maxlevel=%r) on links %r names %r" % (
            step, kind, cfg["start"], cfg["fset"], cfg["sset"], cfg["ml"], snap, names)
        names = [str(x) for x in names]  # what the exporters print
        decl, depth = admitted(cfg, snap)
        declset = set(decl)
        fset = set(cfg["fset"] or ())
        sset = set(cfg["sset"] or ())
        pos = 0
        header = "%s %s {" % (graph, gname) if kind != "mermaid" else "%s %s" % (graph, gname)
        if not lines or lines[0] != header:
            raise Violation(prop, "header", step, "header", "%s: first line %r, expected %r" % (ctx, lines[:1], header))
        pos = 1
        for opt in options or ():
            want = indent + opt
            if pos >= len(lines) or lines[pos] != want:
                raise Violation(prop, "options", step, "options", "%s: option line %r, expected %r" % (ctx, lines[pos:pos + 1], want))
            pos += 1
        if kind != "mermaid":
            if lines[-1] != "}":
                raise Violation(prop, "footer", step, "footer", "%s: last line %r" % (ctx, lines[-1:]))
            body = lines[pos:-1]
        else:
            body = lines[pos:]
        # ---- node statements
        if len(body) < len(decl):
            raise Violation(prop, "nodes", step, "nodes:missing", "%s: %d node statements expected (nodes %r), body is %r" % (ctx, len(decl), decl, body))
        default_ids = not cfg["namef"] and kind in ("udot", "mermaid")
        for k, i in enumerate(decl):
            line = body[k]
            if kind == "mermaid":
                suffix = funcs.nodeattr_of(i, names, kind) if cfg["attrf"] else '["%s"]' % ref_esc(names[i])
                if default_ids:
                    if not (line.startswith(indent) and line.endswith(suffix)):
                        raise Violation(prop, "nodes", step, "nodes:text", "%s: node line %d is %r, expected <indent><id>%s" % (ctx, k, line, suffix))
                    ident = line[len(indent): len(line) - len(suffix)]
                    if not ident:
                        raise Violation(prop, "nodes", step, "nodes:id", "%s: node line %d %r has identifier %r" % (ctx, k, line, ident))
                    self.bind(i, ident, step, ctx)
                else:
                    want = indent + funcs.name_of(i, names) + suffix
                    if line != want:
                        raise Violation(prop, "nodes", step, "nodes:text", "%s: node line %d is %r, expected %r" % (ctx, k, line, want))
            else:
                if cfg["attrf"]:
                    attr = " [%s]" % funcs.nodeattr_of(i, names, kind)
                elif kind == "udot":
                    attr = ' [label="%s"]' % names[i]
                else:
                    attr = ""
                if default_ids:
                    head, tail = indent + '"', '"' + attr + ";"
                    if not (line.startswith(head) and line.endswith(tail) and len(line) >= len(head) + len(tail)):
                        raise Violation(prop, "nodes", step, "nodes:text", "%s: node line %d is %r, expected %s<id>%s" % (ctx, k, line, head, tail))
                    ident = line[len(head): len(line) - len(tail)]
                    if not ID_RE.match(ident):
                        raise Violation(prop, "nodes", step, "nodes:id", "%s: node line %d %r has identifier %r" % (ctx, k, line, ident))
                    self.bind(i, ident, step, ctx)
                else:
                    name = funcs.name_of(i, names) if cfg["namef"] else names[i]
                    want = '%s"%s"%s;' % (indent, ref_esc(name), attr)
                    if line != want:
                        raise Violation(prop, "nodes", step, "nodes:text", "%s: node line %d is %r, expected %r" % (ctx, k, line, want))
                    # recoverability of the name from the quoted identifier
                    quoted = line[len(indent) + 1: len(line) - len(attr) - 2]
                    if unesc(quoted) != name:
                        raise Violation(prop, "escape", step, "escape", "%s: identifier %r does not decode to %r" % (ctx, quoted, name))
        edge_lines = body[len(decl):]
        # ---- edges
        ideal = []
        for p in decl:
            for c in snap[p][1]:
                if c in declset:
                    ideal.append((p, c))
        extra = []
        if kind != "mermaid":
            for p in decl:
                if cfg["ml"] is not None and depth[p] >= cfg["ml"] - 1:
                    continue
                for c in snap[p][1]:
                    if c in sset and c not in fset:
                        extra.append((p, c))

        def edge_text(p, c, idc=None):
            if default_ids:
                a = self.ids.get(p)
                b = self.ids.get(c) if idc is None else idc
            else:
                a = funcs.name_of(p, names) if cfg["namef"] else names[p]
                b = funcs.name_of(c, names) if cfg["namef"] else names[c]
                if kind != "mermaid":
                    a, b = ref_esc(a), ref_esc(b)
            if kind == "mermaid":
                e = funcs.edge_of(p, c, kind) if cfg["eattrf"] else "-->"
                return "%s%s%s%s" % (indent, a, e, b)
            t = funcs.etype_of(p, c) if cfg["etypef"] else "->"
            ea = " [%s]" % funcs.edge_of(p, c, kind) if cfg["eattrf"] else ""
            return '%s"%s" %s "%s"%s;' % (indent, a, t, b, ea)

        want_lines = sorted(edge_text(p, c) for p, c in ideal)
        got_sorted = sorted(edge_lines)
        res.bump("cursors_judged")
        res.bump("node_statements", len(decl))
        res.bump("edge_statements", len(edge_lines))
        if got_sorted == want_lines:
            return
        # not ideal: is it exactly the documented deviation (edges to stopped children)?
        if extra and "C12-1" in KNOWN_OPEN:
            remaining = list(edge_lines)
            ok = True
            for p, c in ideal:
                t = edge_text(p, c)
                if t in remaining:
                    remaining.remove(t)
                else:
                    ok = False
                    break
            if ok:
                for p, c in extra:
                    if default_ids and c not in self.ids:
                        # identifier of an undeclared node: allocated at edge time, learn it from the line
                        pref = edge_text(p, c, idc="\0").split("\0")[0]
                        cand = [ln for ln in remaining if ln.startswith(pref)]
                        hit = None
                        for ln in cand:
                            rest = ln[len(pref):]
                            m = re.match(r'^((?:[^"\\]|\\.)+)"', rest)
                            if m and m.group(1) not in self.owner and edge_text(p, c, idc=m.group(1)) == ln:
                                hit = (ln, m.group(1))
                                break
                        if hit is None:
                            ok = False
                            break
                        self.bind(c, hit[1], step, ctx)
                        remaining.remove(hit[0])
                    else:
                        t = edge_text(p, c)
                        if t in remaining:
                            remaining.remove(t)
                        else:
                            ok = False
                            break
            if ok and not remaining:
                res.known["C12-1"] = res.known.get("C12-1", 0) + 1
                return
        missing = [ln for ln in want_lines if ln not in edge_lines]
        surplus = list(edge_lines)
        for ln in want_lines:
            if ln in surplus:
                surplus.remove(ln)
        clause = "edges:undeclared" if surplus and not missing else ("edges:missing" if missing and not surplus else "edges")
        raise Violation(
            prop,
            "edges",
            step,
            clause + (":maxlevel0" if cfg["ml"] == 0 else ""),
            "%s: declared nodes %r; edge statements %r; expected exactly %r (missing %r, not between declared nodes %r)"
            % (ctx, decl, edge_lines, want_lines, missing, surplus),
        )


def snap_of(world):
    index = world.index
    return tuple((None, ()) if n is None else (index(n.parent), tuple(index(c) for c in n.children)) for n in world.nodes)


def check_alive(world):
    """Consistency guard over the nodes that are still alive."""
    w2 = World()
    for n in world.nodes:
        if n is not None:
            w2.register(n)
    return invariants.check_forest(w2)


class EndRun(Exception):
    """The run ends without a verdict (stack or memory exhausted inside the library)."""


def run(cfg, ops=None, rng=None):
    prop = cfg["prop"]

    def lib(step, what, f, *a):
        # a library call that has no reason to fail in this universe
        try:
            with OpGuard(6.0 + 0.002 * len(cfg["parents"]), 900):
                return f(*a)
        except Watchdog as wd:
            raise Violation(prop, "hang", step, "hang:" + what, "step %d: %s does not terminate (%s)" % (step, what, wd))
        except (RecursionError, MemoryError):
            raise EndRun()
        except Violation:
            raise
        except Exception as exc:  # noqa: BLE001
            raise Violation(prop, "raises", step, "raises:%s:%s" % (what, type(exc).__name__), "step %d: %s raised %s: %s" % (step, what, type(exc).__name__, exc))

    res = Result()
    world = World()
    n0 = len(cfg["parents"])
    names = [nm(x) for x in cfg["names"]]
    classes = list(cfg.get("classes") or ["HNode"] * n0)
    targets = list(cfg.get("targets") or [None] * n0)
    base_cls = classes[0]
    for i in range(n0):
        world.new(classes[i], names[i], target=None if targets[i] is None else world.nodes[targets[i]])
    for i, p in enumerate(cfg["parents"]):
        if p is not None:
            world.nodes[i].parent = world.nodes[p]

    def resolve(i):
        while targets[i] is not None:
            i = targets[i]
        return i

    def eff_names():
        # a link answers `name` with its target's
        return [names[resolve(i)] for i in range(len(names))]

    keep = []  # iterations that were started and abandoned
    live = dict(cfg)  # the filter/stop sets and the public settings may be changed between sessions
    if live["options"] is not None:
        live["options"] = list(live["options"])
    funcs = Funcs(live, world)
    exporter = make_exporter(live, world, funcs)
    judge = Judge(live, funcs)
    materialise_defaults(live)
    h = hashlib.blake2b(digest_size=16)
    h.update(repr(sorted((k, repr(v)) for k, v in cfg.items())).encode())
    replay = ops is not None
    plan = None
    if not replay:
        plan = []
        for s in range(cfg["sessions"]):
            if cfg.get("abandon") and rng.random() < 0.6:
                plan.append(("abandon", 0))
            plan.append(("session", rng.choice((1, cfg["cursors"]))))
            if cfg["tofile"] and rng.random() < 0.5:
                plan.append(("tofile", 0))
            for _ in range(cfg["mut"]):
                plan.append(("mut", 0))
        plan = plan[::-1]
    cursors = {}
    collected = {}
    step = 0
    try:
        while True:
            n = len(world.nodes)
            if replay:
                if step >= len(ops):
                    break
                op = ops[step]
            else:
                if cursors:
                    # the scheduler: which open cursor advances
                    c = rng.choice(sorted(cursors))
                    op = {"op": "step", "c": c}
                elif not plan:
                    break
                else:
                    what, arg = plan.pop()
                    if what == "session":
                        op = {"op": "open", "k": arg}
                    elif what == "tofile":
                        op = {"op": "tofile"}
                    elif what == "abandon":
                        alive = [j for j in range(n) if world.nodes[j] is not None]
                        op = {"op": "abandon", "what": rng.choice(("cursor", "cursor", "preorder")), "k": rng.randint(0, 6), "n": rng.choice(alive),
                              "drop": rng.random() < 0.4}
                    else:
                        r = rng.random()
                        alive = [j for j in range(n) if world.nodes[j] is not None]
                        leaves = [j for j in alive if j != cfg["start"] and not world.nodes[j].children and j not in targets]
                        if cfg.get("setopt") and rng.random() < 0.3:
                            what = rng.choice(("append", "pop", "options", "indent", "name", "graph"))
                            op = {"op": "setopt", "what": what, "v": {"append": "opt%d;" % step, "pop": None, "options": ["o%d;" % step], "indent": rng.choice((0, 1, 3, 8)),
                                                                     "name": "g%d" % step, "graph": rng.choice(("graph", "digraph", "strict digraph"))}[what]}
                        elif cfg["forget"] and leaves and rng.random() < 0.35:
                            op = {"op": "forget", "n": rng.choice(leaves)}
                        elif cfg["refilter"] and (live["fset"] is not None or live["sset"] is not None) and rng.random() < 0.35:
                            op = {"op": "setfilter",
                                  "fset": sorted(j for j in range(n) if rng.random() < 0.25),
                                  "sset": sorted(j for j in range(n) if rng.random() < 0.25)}
                        elif r < 0.5 and n > 1:
                            i = rng.choice(alive)
                            op = {"op": "parent", "n": i, "p": rng.choice([None] + [j for j in alive if j != i])}
                            if cfg.get("faults") and rng.random() < 0.5:
                                op["f"] = {"once": [[rng.randrange(4), rng.choice(("SimFault", "SimRuntime", "SimTreeError")), None]]}
                        elif r < 0.75:
                            op = {"op": "rename", "n": rng.choice(alive),
                                  "name": rng.choice(cfg["names"]) if rng.random() < 0.4 else (rng.choice(NAMES) if rng.random() < 0.5 else rand_name(rng))}
                        else:
                            op = {"op": "new", "name": rng.choice(NAMES), "p": rng.choice(alive)}
                res.ops.append(op)
            kind = op["op"]
            res.steps += 1
            res.bump("ops")
            if kind == "open":
                if cursors:
                    step += 1
                    continue
                snap = snap_of(world)
                if check_alive(world):
                    # (a link class or cache that breaks C01 makes the public view cyclic or contradictory: nothing to judge against)
                    raise Violation("GUARD", "guard", step, "guard", "forest inconsistent before session at step %d" % step)
                for k in range(op["k"]):
                    cursors[k] = lib(step, "iter(exporter)", iter, exporter)
                    collected[k] = []
                res.bump("sessions")
                res.bump("cursors_opened", op["k"])
                if op["k"] > 1:
                    res.bump("interleaved_sessions")
                session_snap = snap
                session_names = eff_names()
            elif kind == "step":
                c = op["c"]
                if c in cursors:
                    try:
                        with OpGuard(3.0 + 0.002 * n, 900):
                            line = next(cursors[c])
                        collected[c].append(line)
                        res.bump("cursor_steps")
                    except Watchdog as wd:
                        raise Violation(prop, "hang", step, "hang:iteration", "step %d: the exporter's iteration does not terminate (%s)" % (step, wd))
                    except (RecursionError, MemoryError):
                        raise EndRun()
                    except Violation:
                        raise
                    except StopIteration:
                        del cursors[c]
                        lines = collected.pop(c)
                        if not cfg["namef"] and cfg["kind"] in ("udot", "mermaid") and cfg.get("forget"):
                            # default identifiers are looked up by id(node): after a node was dropped and freed, a new
                            # node may or may not get its address - and with it its old identifier - depending on the
                            # state of the allocator.  Both outcomes are legal (the judge binds identifiers afresh),
                            # so the replay digest must not depend on them.
                            h.update(repr((step, c, len(lines), lines[:1])).encode())
                        else:
                            h.update(repr((step, c, lines)).encode())
                        res.sigs.add(stable_hash((cfg["kind"], shape_of(session_snap, live), cfg["ml"], cfg["fset"] is not None, cfg["sset"] is not None,
                                                  cfg["namef"], cfg["attrf"], cfg["eattrf"], len(lines) > 3, base_cls, any(t is not None for t in targets))))
                        judge.judge(step, lines, session_snap, session_names, res)
                    except Exception as exc:  # noqa: BLE001
                        # no callable of this universe raises and every setting is legal: the exporter must not either
                        raise Violation(prop, "raises", step, "raises:iteration:" + type(exc).__name__,
                                        "step %d: iterating the exporter raised %s: %s after lines %r" % (step, type(exc).__name__, exc, collected[c][-3:]))
            elif kind == "tofile" and not cursors:
                snap = snap_of(world)
                if check_alive(world):
                    raise Violation("GUARD", "guard", step, "guard", "forest inconsistent before to_file at step %d" % step)
                # a real (scratch) file: whatever way the implementation opens it, the bytes on disk count
                import tempfile

                fd, path = tempfile.mkstemp(prefix="anytree-mermaid-", suffix=".md")
                os.close(fd)
                try:
                    if cfg["kind"] == "mermaid":
                        lib(step, "to_file", exporter.to_file, path)
                    else:
                        lib(step, "to_dotfile", exporter.to_dotfile, path)
                    with open(path, "rb") as fh:
                        raw = fh.read()
                finally:
                    os.remove(path)
                buf = io.StringIO(raw.decode("utf-8"))
                text = buf.getvalue()
                lines = lib(step, "list(exporter)", list, exporter)
                judge.judge(step, lines, snap, eff_names(), res)
                want = "".join("%s\n" % ln for ln in lines)
                if cfg["kind"] == "mermaid":
                    want = "```mermaid\n" + want + "```"
                res.bump("to_file_calls")
                if text != want:
                    raise Violation(prop, "to_file", step, "to_file", "step %d: to_file/to_dotfile wrote %r, expected the lines of an iteration: %r" % (step, text, want))
            elif kind == "abandon" and not cursors:
                # an iteration that is started and never finished (a consumer that stops reading, an export aborted half-way):
                # it must not leave anything behind that a later export can see
                if op["what"] == "cursor":
                    it = lib(step, "iter(exporter)", iter, exporter)
                else:
                    i = op["n"] if op["n"] < n and world.nodes[op["n"]] is not None else cfg["start"]
                    it = iter(PreOrderIter(world.nodes[i]))
                for _ in range(op["k"]):
                    try:
                        with OpGuard(3.0 + 0.002 * n, 900):
                            next(it)
                    except Watchdog as wd:
                        raise Violation(prop, "hang", step, "hang:iteration", "step %d: the iteration does not terminate (%s)" % (step, wd))
                    except (RecursionError, MemoryError):
                        raise EndRun()
                    except StopIteration:
                        break
                    except Exception as exc:  # noqa: BLE001
                        raise Violation(prop, "raises", step, "raises:iteration:" + type(exc).__name__, "step %d: a partial iteration raised %s: %s" % (step, type(exc).__name__, exc))
                if op.get("drop"):
                    del it
                    gc.collect()
                else:
                    keep.append(it)
                res.bump("abandoned_iterations")
                res.bump("fault_abandoned_iteration")
            elif kind == "forget" and not cursors:
                i = op["n"]
                if i < n and i != cfg["start"] and world.nodes[i] is not None and not world.nodes[i].children and i not in targets:
                    # the node leaves the tree and every reference to it is dropped: it is really freed
                    world.nodes[i].parent = None
                    world._idx.pop(id(world.nodes[i]), None)
                    world.nodes[i] = None
                    names[i] = FORGOTTEN
                    ident = judge.ids.pop(i, None)
                    if ident is not None:
                        judge.owner.pop(ident, None)
                    gc.collect()
                    res.bump("nodes_forgotten")
            elif kind == "setopt" and not cursors:
                what, v = op["what"], op["v"]
                if what == "append" and live["options"] is not None:
                    live["options"].append(v)  # the very list object the exporter was given
                elif what == "pop" and live["options"]:
                    live["options"].pop()
                elif what == "options":
                    live["options"] = list(v)
                    exporter.options = live["options"]
                elif what == "indent":
                    live["indent"] = v
                    exporter.indent = v
                elif what == "name":
                    live["gname"] = v
                    exporter.name = v
                elif what == "graph":
                    live["graph"] = v
                    exporter.graph = v
                res.bump("setting_changes")
            elif kind == "setfilter" and not cursors:
                if live["fset"] is not None:
                    live["fset"] = list(op["fset"])
                    funcs.fset = frozenset(op["fset"])
                if live["sset"] is not None:
                    live["sset"] = list(op["sset"])
                    funcs.sset = frozenset(op["sset"])
                res.bump("filter_changes")
            elif kind == "parent" and not cursors:
                if op["n"] < n and (op["p"] is None or op["p"] < n) and world.nodes[op["n"]] is not None and (op["p"] is None or world.nodes[op["p"]] is not None):
                    try:
                        status, _exc = exec_op(world, {"op": "parent", "n": op["n"], "p": op["p"], "f": op.get("f")})
                    except Watchdog as wd:
                        raise Violation("GUARD", "hang", step, "hang:parent", "step %d: %r does not terminate (%s)" % (step, op, wd))
                    res.bump("moves" if status == "ok" else "moves_refused_or_aborted")
                    if world.fired:
                        res.bump("moves_aborted_by_hook_fault")
                        for f in world.fired:
                            res.bump("fault_" + f[4])
                            res.bump("fault@" + f[1])
                    if check_alive(world):
                        raise Violation("GUARD", "guard", step, "guard", "forest inconsistent after %r" % (op,))
            elif kind == "rename" and not cursors:
                if op["n"] < n and world.nodes[op["n"]] is not None:
                    world.nodes[op["n"]].name = nm(op["name"])  # through a link: stored on the target
                    names[resolve(op["n"])] = nm(op["name"])
                    res.bump("renames")
            elif kind == "new" and not cursors:
                if op["p"] < n and world.nodes[op["p"]] is not None:
                    world.new(base_cls, nm(op["name"]), parent=world.nodes[op["p"]])
                    names.append(nm(op["name"]))
                    targets.append(None)
                    res.bump("new_nodes")
            step += 1
    except Violation as v:
        res.violation = v
    except EndRun:
        res.bump("runs_ended_by_stack_or_memory_exhaustion")
    res.digest = h.hexdigest()
    res.bump("runs")
    return res


def shape_of(snap, cfg):
    marks = {}
    for i in cfg["fset"] or ():
        marks[i] = marks.get(i, "") + "f"
    for i in cfg["sset"] or ():
        marks[i] = marks.get(i, "") + "s"

    def enc(i):
        return marks.get(i, "") + "(" + "".join(enc(c) for c in snap[i][1]) + ")"

    return enc(cfg["start"])


def simplify_cfg(cfg, ops):
    for key in ("fset", "sset"):
        if cfg[key]:
            for i in range(len(cfg[key])):
                yield dict(cfg, **{key: cfg[key][:i] + cfg[key][i + 1:]}), ops
    for key, val in (("namef", False), ("attrf", False), ("eattrf", False), ("etypef", False), ("options", None), ("defaults", True), ("tofile", False)):
        if cfg[key] != val:
            yield dict(cfg, **{key: val}), ops
    for key, val in (("trav", 0), ("abandon", False), ("faults", False)):
        if cfg.get(key, val) != val:
            yield dict(cfg, **{key: val}), ops
    n = len(cfg["parents"])
    if cfg.get("classes") and any(c != "HNode" for c in cfg["classes"]):
        yield dict(cfg, classes=["HNode"] * n, targets=[None] * n), ops
    if n > 1:
        last = n - 1
        used = any(p == last for p in cfg["parents"]) or cfg["start"] == last or any(
            o.get("n") == last or o.get("p") == last for o in ops if o["op"] in ("parent", "rename", "new", "abandon", "forget")
        ) or any(o["op"] == "new" for o in ops) or last in (cfg.get("targets") or ())
        if not used:
            c2 = dict(cfg)
            c2["parents"] = cfg["parents"][:-1]
            c2["names"] = cfg["names"][:-1]
            if cfg.get("classes"):
                c2["classes"] = cfg["classes"][:-1]
                c2["targets"] = cfg["targets"][:-1]
            c2["fset"] = None if cfg["fset"] is None else [x for x in cfg["fset"] if x != last]
            c2["sset"] = None if cfg["sset"] is None else [x for x in cfg["sset"] if x != last]
            yield c2, ops
    for i, nm in enumerate(cfg["names"]):
        if nm != "a":
            yield dict(cfg, names=cfg["names"][:i] + ["a"] + cfg["names"][i + 1:]), ops
