"""Twin universes in lock-step (C17, C18).

The same operation history and the same fault plan are executed on two
universes built from the same blueprint:

  C18: NodeMixin-based class  vs  LightNodeMixin-based class with __slots__
  C17: plain node class       vs  the same class with user-defined comparison /
       hashing / truth-value / container special methods (count, lie or raise)

After every operation the outcome class, the complete structure, the hook log
(with in-hook observations) and the fired faults must agree; at query points
the whole read-only battery (navigation, util, iterators, search, Walker,
Resolver, RenderTree, exporters) must agree.  For C17 a probe inside every
overridden method additionally records who called it: a call whose nearest
non-stdlib caller frame is anytree code violates "never invoked by the library".
"""
import hashlib
import os
import sys

from . import boot, invariants, struct
from .ops import exec_op
from .queries import battery, first_difference
from .struct import Result, Violation, apply_op, expect_of, gen_op, stable_hash
from .world import ACTIVE, CLASSES, FAMILY, OpGuard, Watchdog, World

KNOWN_OPEN = set()

ADV_METHODS = (
    "__eq__",
    "__ne__",
    "__lt__",
    "__le__",
    "__gt__",
    "__ge__",
    "__hash__",
    "__bool__",
    "__len__",
    "__iter__",
    "__contains__",
    "__getitem__",
)
ADV_MODES = {
    "__eq__": ("count", "true", "false", "raise"),
    "__ne__": ("count", "true", "false", "raise"),
    "__lt__": ("true", "false", "raise"),
    "__le__": ("true", "false", "raise"),
    "__gt__": ("true", "false", "raise"),
    "__ge__": ("true", "false", "raise"),
    "__hash__": ("count", "const", "none", "raise"),
    "__bool__": ("true", "false", "raise"),
    "__len__": ("zero", "one", "raise"),
    "__iter__": ("empty", "raise"),
    "__contains__": ("true", "false", "raise"),
    "__getitem__": ("index", "self", "raise"),
}

PROBE = []  # (method, who, file, function, line) recorded by adversarial methods
_SRC = [None]


class AdvRaise(Exception):
    """Raised by an adversarial special method in 'raise' mode."""


def _probe(name):
    src = _SRC[0]
    if src is None:
        src = _SRC[0] = os.path.realpath(boot.anytree_src()) + os.sep
    f = sys._getframe(2)
    while f is not None:
        fn = f.f_code.co_filename
        if fn.startswith(src) or os.path.realpath(fn).startswith(src):
            PROBE.append((name, "library", os.path.relpath(os.path.realpath(fn), src), f.f_code.co_name, f.f_lineno))
            return
        if fn.endswith(os.path.join("sim", "queries.py")):
            # the battery only ever *calls the library*; a special method reached from there without a
            # library frame in between was invoked by a C-level wrapper the library put around its function
            # (e.g. a caching decorator hashing its arguments)
            PROBE.append((name, "library", "(C-level wrapper of a library function called at sim/queries.py:%d)" % f.f_lineno, "wrapper", f.f_lineno))
            return
        if fn.startswith(boot.VERIF_DIR):
            PROBE.append((name, "harness", os.path.relpath(fn, boot.VERIF_DIR), f.f_code.co_name, f.f_lineno))
            return
        f = f.f_back
    PROBE.append((name, "unknown", "?", "?", 0))


def _make_method(name, mode):
    if name in ("__eq__", "__ne__"):
        def m(self, other):
            _probe(name)
            if mode == "raise":
                raise AdvRaise(name)
            if mode == "count":
                same = self is other
                return same if name == "__eq__" else not same
            return mode == "true"
    elif name in ("__lt__", "__le__", "__gt__", "__ge__"):
        def m(self, other):
            _probe(name)
            if mode == "raise":
                raise AdvRaise(name)
            return mode == "true"
    elif name == "__hash__":
        if mode == "none":
            return None

        def m(self):
            _probe(name)
            if mode == "raise":
                raise AdvRaise(name)
            if mode == "const":
                return 7
            return id(self) >> 4
    elif name == "__bool__":
        def m(self):
            _probe(name)
            if mode == "raise":
                raise AdvRaise(name)
            return mode == "true"
    elif name == "__len__":
        def m(self):
            _probe(name)
            if mode == "raise":
                raise AdvRaise(name)
            return 0 if mode == "zero" else 1
    elif name == "__iter__":
        def m(self):
            _probe(name)
            if mode == "raise":
                raise AdvRaise(name)
            return iter(())
    elif name == "__contains__":
        def m(self, item):
            _probe(name)
            if mode == "raise":
                raise AdvRaise(name)
            return mode == "true"
    else:  # __getitem__
        def m(self, key):
            _probe(name)
            if mode == "raise":
                raise AdvRaise(name)
            if mode == "self":
                return self
            raise IndexError(key)
    m.__name__ = name
    return m


_ADV_CACHE = {}


def adversarial_class(basename, adv):
    """Subclass of a harness node class overriding the given special methods."""
    key = (basename, tuple(sorted(adv.items())))
    cls = _ADV_CACHE.get(key)
    if cls is None:
        base = CLASSES[basename]
        ns = {"_sim_base": basename}
        if FAMILY[basename] == "light" and basename == "HLight":
            ns["__slots__"] = ()
        for name, mode in sorted(adv.items()):
            ns[name] = _make_method(name, mode)
        if "__eq__" in adv and "__hash__" not in adv:
            ns["__hash__"] = None  # what Python does when a class defines __eq__ only
        cls = type("Adv" + basename, (base,), ns)
        _ADV_CACHE[key] = cls
    return cls


# -- configuration ------------------------------------------------------------------------------


def gen_cfg(rng, prop, tier):
    if prop == "C18":
        cfg = struct.gen_cfg(rng, "C18", tier)
        cfg["twin"] = {"HMix": "HLight"}
        if rng.random() < 0.3:
            # the same comparison with value-equality classes on both sides
            cfg["menu"] = ["HMixEq"]
            cfg["classes"] = ["HMixEq"] * len(cfg["classes"])
            cfg["twin"] = {"HMixEq": "HLightEq"}
        elif rng.random() < 0.3:
            # ... and with always-falsy or container-like classes on both sides
            a, b = rng.choice((("HMixNo", "HLightNo"), ("HMixBag", "HLightBag")))
            cfg["menu"] = [a]
            cfg["classes"] = [a] * len(cfg["classes"])
            cfg["twin"] = {a: b}
    else:
        cfg = struct.gen_cfg(rng, "C02", tier, allow_big=False)
        cfg["prop"] = "C17"
        base = rng.choice(("HNode", "HNode", "HMix", "HAny", "HLight", "HLightDict"))
        cfg["family"] = FAMILY[base]
        cfg["menu"] = [base]
        cfg["classes"] = [base] * len(cfg["classes"])
        cfg["targets"] = [None] * len(cfg["classes"])
        if base in ("HNode", "HAny") and rng.random() < 0.3:
            # symlink nodes whose targets are instances of the adversarial class
            cfg["menu"] = [base, "HSym"]
            for i in range(1, len(cfg["classes"])):
                if rng.random() < 0.35:
                    cfg["classes"][i] = "HSym"
                    cfg["targets"][i] = rng.randrange(i)
        if rng.random() < (0.02 if tier == "thorough" else 0.01):
            # a larger universe: query results with dozens of nodes
            n = rng.randint(36, 70)
            cfg["classes"] = [base] * n
            cfg["targets"] = [None] * n
            cfg["init_parents"] = struct.gen_init_forest(rng, n, True)
            cfg["L"] = rng.randint(1, 4)
        cfg["allow_nn"] = cfg["family"] == "node" and rng.random() < 0.4
        k = rng.choice((1, 1, 2, 3, 5, len(ADV_METHODS)))
        adv = {}
        for name in rng.sample(ADV_METHODS, k):
            adv[name] = rng.choice(ADV_MODES[name])
        cfg["adv"] = adv
        cfg["twin"] = {base: "ADV"}
        cfg["profile"] = rng.choice(("none", "none", "once"))
        cfg["hooks"] = list(struct.ALL_HOOKS)
        cfg["excs"] = ["SimFault"]
        cfg["p_fault"] = 0.3 if cfg["profile"] != "none" else 0.0
    cfg["q_rate"] = rng.choice((0.0, 0.15, 0.3, 1.0))
    cfg["q_heavy"] = rng.random() < 0.6
    if tier == "quick" and 8 < len(cfg["classes"]) < 30:
        cfg["q_heavy"] = False
    if len(cfg["classes"]) >= 30:
        cfg["q_heavy"] = True
    return cfg


def brief_cfg(cfg):
    b = struct.brief_cfg(cfg)
    for k in ("adv", "twin", "q_rate"):
        if k in cfg:
            b[k] = cfg[k]
    return b


def _world_b(cfg):
    wb = World(observe_hooks=cfg.get("observe_hooks", False))
    cmap = {}
    for a, b in cfg["twin"].items():
        cmap[a] = adversarial_class(a, cfg["adv"]) if b == "ADV" else b
    wb.classmap = cmap
    return wb


def _probe_violation(prop, step, op, what):
    lib = [p for p in PROBE if p[1] == "library"]
    other = [p for p in PROBE if p[1] != "library"]
    if other:
        raise RuntimeError("harness invoked an adversarial special method: %r" % (other[:3],))
    if lib:
        name, _, fn, func, line = lib[0]
        raise Violation(
            prop,
            "invoked",
            step,
            "invoked:%s:%s:%s" % (name, fn, func.lstrip("_")),
            "step %d %s (%s): the library invoked the user's %s on a node at %s:%d in %s()"
            % (step, op, what, name, fn, line, func),
        )


def run(cfg, ops=None, rng=None):
    prop = cfg["prop"]
    res = Result()
    wa, model = struct.build_world(cfg)
    wb, _ = struct.build_world(cfg, _world_b(cfg))
    del PROBE[:]
    h = hashlib.blake2b(digest_size=16)
    h.update(repr(sorted((k, repr(v)) for k, v in cfg.items())).encode())
    replay = ops is not None
    length = len(ops) if replay else cfg["L"]
    try:
        _probe_violation(prop, -1, None, "construction")
        step = 0
        n_struct = 0
        while True:
            if replay:
                if step >= len(ops):
                    break
                op = ops[step]
            else:
                if n_struct >= length:
                    if res.ops and res.ops[-1]["op"] == "query":
                        break
                    op = {"op": "query", "qseed": rng.randrange(1 << 30), "heavy": cfg["q_heavy"], "part": rng.choice((None, None, 0.2))}
                elif n_struct > 0 and res.ops[-1]["op"] != "query" and rng.random() < cfg["q_rate"]:
                    op = {"op": "query", "qseed": rng.randrange(1 << 30), "heavy": cfg["q_heavy"] and rng.random() < 0.3,
                          "part": rng.choice((None, 0.1, 0.3, 0.6))}
                else:
                    op = gen_op(rng, model, cfg, step)
                    n_struct += 1
                res.ops.append(op)
            if op["op"] == "query":
                snap = wa.snapshot()
                ACTIVE[0] = None
                full = prop == "C17"  # C18 names navigation, iterators, Walker, Resolver, RenderTree only
                budget = 4.0 + 0.05 * len(wa.nodes)
                try:
                    with OpGuard(budget, 700):
                        ra = battery(wa, snap, op["qseed"], heavy=op.get("heavy", True), exporters=full, helpers=full, part=op.get("part"))
                except Watchdog as wd:
                    raise Violation("GUARD", "hang", step, "hang:query", str(wd))
                _probe_violation(prop, step, op, "plain universe")
                try:
                    with OpGuard(budget, 700):
                        rb = battery(wb, snap, op["qseed"], heavy=op.get("heavy", True), exporters=full, helpers=full, part=op.get("part"))
                except Watchdog as wd:
                    _probe_violation(prop, step, op, "query battery")
                    raise Violation(prop, "query", step, "query:hang", "step %d: a query that returns in the first universe does not terminate in the second (%s)" % (step, wd))
                _probe_violation(prop, step, op, "query battery")
                res.bump("batteries")
                res.bump("queries", len(ra))
                d = first_difference(ra, rb)
                h.update(repr((step, "query", len(ra), stable_hash(ra))).encode())
                if d is not None:
                    label = d[0][0] if isinstance(d[0], tuple) else "length"
                    raise Violation(
                        prop,
                        "query",
                        step,
                        "query:%s" % (label,),
                        "step %d: query results differ on structure %r: first universe %r, second universe %r" % (step, snap, d[0], d[1]),
                    )
                res.sigs.add(stable_hash(("q", struct.shape_sig(model, {}), op.get("heavy"))))
                res.hooks_per_op.append(0)
                step += 1
                continue
            pre_sig = struct.shape_sig(model, struct.op_marks(op))
            run_op = op
            if op.get("f") and op["f"].get("act"):
                # (a tree-changing hook action is only executed inside the envelope it was generated for, see struct.act_safe)
                exp = expect_of(model, op)
                safe = [a for a in op["f"]["act"] if struct.act_safe(model, op, a, exp)]
                if len(safe) != len(op["f"]["act"]):
                    run_op = dict(op, f=dict(op["f"], act=safe))
                    res.bump("hook_actions_dropped_as_unsafe_here")
            try:
                sa, ea = exec_op(wa, run_op)
                fa, la = wa.fired, wa.hooklog
            except Watchdog as wd:
                raise Violation("GUARD", "hang", step, "hang:" + op["op"], str(wd))
            try:
                sb, eb = exec_op(wb, run_op)
                fb, lb = wb.fired, wb.hooklog
            except Watchdog as wd:
                raise Violation(
                    prop, "outcome", step, "outcome:%s:hang" % op["op"],
                    "step %d %s: returned in the first universe, does not terminate in the second (%s)" % (step, op, wd),
                )
            res.steps += 1
            res.bump("ops")
            res.bump("op_" + op["op"])
            res.bump("hooks", len(la))
            res.hooks_per_op.append(len(la))
            for f in fa:
                res.bump("fault_" + f[4])
                res.bump("fault@" + f[1])
            na = type(ea).__name__ if ea is not None else None
            nb = type(eb).__name__ if eb is not None else None
            if na:
                res.bump("exc_" + na)
            res.sigs.add(stable_hash((pre_sig, struct.op_brief(op), struct.fired_brief(fa), na)))
            h.update(repr((step, struct.op_brief(op), na, nb, struct.fired_brief(fa), len(la), len(lb))).encode())
            _probe_violation(prop, step, op, "structural call")
            if na == "RecursionError" or nb == "RecursionError":
                # stack exhaustion (the unbounded rollback recursion of finding C03-4): where it strikes depends
                # on the number of helper frames of either implementation, which no property pins - the two
                # universes may legitimately end up in different states, so the run ends without a verdict
                res.bump("runs_ended_by_stack_exhaustion")
                break
            if op["op"] == "new":
                model.add(FAMILY[op["cls"]])
            bad = invariants.check_forest(wa)
            if bad:
                raise Violation("GUARD", bad[0][0], step, "guard:" + bad[0][0], "first universe inconsistent after step %d %s: %s" % (step, op, bad[0][1]))
            badb = invariants.check_forest(wb)
            _probe_violation(prop, step, op, "consistency walk")
            snap_a = wa.snapshot()
            if badb:
                raise Violation(prop, "structure", step, "structure:" + op["op"], "second universe inconsistent after step %d %s: %s" % (step, op, badb[0][1]))
            snap_b = wb.snapshot()
            h.update(repr(snap_a).encode())
            res.states.add(stable_hash(snap_a))
            if (sa, na) != (sb, nb):
                raise Violation(
                    prop,
                    "outcome",
                    step,
                    "outcome:%s:%s:%s" % (op["op"], na, nb),
                    "step %d %s: first universe %s, second universe %s (%s)" % (step, op, na or "ok", nb or "ok", eb if eb is not None else ea),
                )
            if snap_a != snap_b:
                da, db = struct.diff_snap(snap_a, snap_b)
                raise Violation(
                    prop,
                    "structure",
                    step,
                    "structure:" + op["op"],
                    "step %d %s: structures differ: first universe %r, second universe %r" % (step, op, da, db),
                )
            if la != lb or [f[:5] for f in fa] != [f[:5] for f in fb]:
                raise Violation(
                    prop,
                    "hooks",
                    step,
                    "hooks:" + op["op"],
                    "step %d %s: hook logs differ: first universe %r, second universe %r" % (step, op, la, lb),
                )
            model.load(snap_a)
            step += 1
        if prop == "C18" and res.violation is None and not res.stats.get("runs_ended_by_stack_exhaustion") and res.steps % 3 == 0:
            # the same tree-lifetime in both universes: a node keeps its whole tree alive
            ea = eb = fa = fb = la = lb = snap_a = None
            from .queries import lifetime_probe

            ba, bb = lifetime_probe(wa), lifetime_probe(wb)
            res.bump("lifetime_probes")
            if ba != bb:
                raise Violation(prop, "lifetime", step, "lifetime", "at the end of the run: first universe: %s; second universe: %s" % (ba or "whole tree alive", bb or "whole tree alive"))
    except Violation as v:
        res.violation = v
    finally:
        ACTIVE[0] = None
    res.digest = h.hexdigest()
    res.bump("runs")
    return res


def sweep(cfg, res, rng, tier):
    """C18: fault-position enumeration on fault-free base histories - the same
    one-shot fault at every hook position of every operation, on both universes."""
    if cfg["prop"] != "C18" or cfg["profile"] != "none":
        return
    ops = res.ops
    if len([o for o in ops if o["op"] != "query"]) > (8 if tier == "thorough" else 5):
        return
    base = [struct.with_fault(o, None) if o["op"] != "query" else o for o in ops]
    excs = ("SimFault", "SimCancel") if tier == "thorough" else ("SimFault",)
    for t, op in enumerate(base):
        if op["op"] == "query":
            continue
        tail = [o for o in base[t + 1: t + 2] if o["op"] == "query"]
        for k in range(res.hooks_per_op[t]):
            for exc in excs:
                yield cfg, base[:t] + [struct.with_fault(op, {"once": [[k, exc, None]]})] + tail


def simplify_op(op):
    if op["op"] == "query":
        if op.get("heavy"):
            yield dict(op, heavy=False)
        return
    for alt in struct.simplify_op(op):
        yield alt


def simplify_cfg(cfg, ops):
    sops = [o for o in ops if o["op"] != "query"]
    for c2, o2 in struct.simplify_cfg(cfg, sops):
        if len(c2["classes"]) != len(cfg["classes"]):
            # renumbering: re-insert the query ops at their positions
            it = iter(o2)
            merged = [o if o["op"] == "query" else next(it) for o in ops]
            yield c2, merged
    adv = cfg.get("adv")
    if adv and len(adv) > 1:
        for name in sorted(adv):
            a2 = {k: v for k, v in adv.items() if k != name}
            yield dict(cfg, adv=a2), ops
    if cfg.get("observe_hooks"):
        yield dict(cfg, observe_hooks=False), ops
