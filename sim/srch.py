"""C14: search functions return the filtered pre-order and enforce their count
bounds, and the functions in anytree.cachedsearch return the same results or
errors as their anytree.search twins.

cachedsearch is a cache layer: "the same as the search counterpart" can only
fail across a history - the same query objects (same node, same filter/stop
callables, same bounds) issued again after the tree or its attributes changed.
A run therefore keeps a pool of query objects and re-issues them, to both
modules, between structural mutations and attribute writes.  (fastcache is not
installed here, so the layer is a pass-through; that is what the check
establishes, and what e.g. a functools.lru_cache fallback would break.)
"""
import hashlib
import re

from anytree import cachedsearch, search
from anytree.search import CountError

from . import invariants, struct
from .ops import exec_op
from .struct import Result, Violation, apply_op, expect_of, gen_op, stable_hash
from .world import FAMILY, OpGuard, Watchdog

KNOWN_OPEN = set()
ATTRS = ("foo", "bar")
MISSING = object()
NAN = float("nan")  # one shared object: `is` holds, `==` does not


def pyval(spec):
    """Attribute/query values are plain JSON data, except {'py': 'NAN'}: the shared not-a-number object."""
    if isinstance(spec, dict):
        return NAN
    return spec


# "0", "1", "None", "1.5": values whose str() coincides with that of another value they are not equal to
VALUES = (0, 1, 2, "a", None, "50%", "%s", "{0}", "{}", "{k}", {"py": "NAN"}, "0", "1", "None", 1.5, "1.5")
MODS = (("search", search), ("cachedsearch", cachedsearch))


def gen_cfg(rng, prop, tier):
    cfg = struct.gen_cfg(rng, "C02", tier, allow_big=False)
    cfg["prop"] = "C14"
    cfg["odd_names"] = False
    menu = rng.choice((("HNode",), ("HAny",), ("HNode", "HAny", "HMix"), ("HLight",), ("HLightDict",),
                       ("HNodeBag",), ("HNodeNo",), ("HLightNo", "HLight"), ("HNodeEq",), ("PNode",), ("PAny",), ("PNode", "PAny"),
                       ("HNode", "HSym"), ("HAny", "HSym"), ("PAny", "PSym"), ("HAny", "HNode", "HSymMix"),
                       ("HNodeUnhash",), ("HNodeUnhash", "HNode"), ("HLightBag",), ("HLightEq",), ("HMixWords",)))
    cfg["menu"] = list(menu)
    cfg["family"] = FAMILY[menu[0]]
    cfg["classes"] = [rng.choice(menu) if i else menu[0] for i, _ in enumerate(cfg["classes"])]
    # symbolic links answer every attribute lookup with their target's (or its AttributeError)
    cfg["targets"] = [rng.randrange(i) if c in struct.LINK_CLASSES else None for i, c in enumerate(cfg["classes"])]
    cfg["allow_nn"] = False
    cfg["w"]["new"] = 0
    cfg["L"] = rng.randint(4, 30)
    cfg["q_rate"] = rng.choice((0.4, 0.6, 0.8))
    cfg["a_rate"] = rng.choice((0.1, 0.2, 0.3))
    cfg["attrs"] = list(ATTRS) + (["foo.bar"] if cfg["family"] == "node" and rng.random() < 0.3 else [])
    cfg["init_attrs"] = [
        {k: rng.choice(VALUES) for k in cfg["attrs"] if rng.random() < 0.5} for _ in cfg["classes"]
    ]
    return cfg


def brief_cfg(cfg):
    b = struct.brief_cfg(cfg)
    b["init_attrs"] = cfg["init_attrs"]
    return b


def ref_preorder(snap, start, admit_filter, stopset, maxlevel):
    """Admitted = relative depth < maxlevel and no node on the path from start
    down to itself is stopped; yielded = admitted and filter true."""
    out = []
    if maxlevel is not None and maxlevel <= 0:
        return out
    stack = [(start, 1)]
    while stack:
        i, level = stack.pop()
        if i in stopset:
            continue
        if admit_filter(i):
            out.append(i)
        if maxlevel is None or level < maxlevel:
            for c in reversed(snap[i][1]):
                stack.append((c, level + 1))
    return out


def gen_query(rng, world, snap, attrs, qid, names=ATTRS):
    n = len(snap)
    fn = rng.choice(("findall", "findall", "find", "findall_by_attr", "find_by_attr"))
    q = {"op": "q", "id": qid, "fn": fn, "s": rng.randrange(n), "ml": rng.choice((None, None, None, 0, 1, 2, 3, -1))}
    roots = [i for i in range(n) if snap[i][0] is None]
    if rng.random() < 0.6:
        q["s"] = rng.choice(roots)
    if fn in ("findall", "find"):
        r = rng.random()
        if r < 0.06:
            # a user filter that raises TypeError the first time it is called (per call of the search function)
            q["f"] = ["flaky", sorted(i for i in range(n) if rng.random() < 0.5)]
        elif r < 0.4:
            q["f"] = ["idx", sorted(i for i in range(n) if rng.random() < 0.5)]
        elif r < 0.8:
            q["f"] = ["attr", rng.choice(tuple(names) + ("name",)), rng.choice(VALUES + ("n1",))]
        else:
            q["f"] = None
        q["stop"] = sorted(i for i in range(n) if rng.random() < 0.2) if rng.random() < 0.4 else None
    else:
        q["name"] = rng.choice(tuple(names) + ("name", "nope"))
        q["value"] = rng.choice(VALUES + ("n0", "n1", "n2"))
        q["dflt"] = rng.random() < 0.3 and q["name"] == "name"
    q["pos"] = rng.choice((0, 0, 1, 2, 3, 4, 5))
    if fn.startswith("findall"):
        # bounds around the current match count
        cnt = len(reference(q, snap, attrs))
        opts = (None, None, 0, max(cnt - 1, 0), cnt, cnt + 1)
        q["min"] = rng.choice(opts)
        q["max"] = rng.choice(opts)
    return q


def reference(q, snap, attrs):
    fn = q["fn"]
    if fn in ("findall", "find"):
        f = q.get("f")
        if f is None:
            flt = lambda i: True  # noqa: E731
        elif f[0] in ("idx", "flaky"):
            fset = set(f[1])
            flt = lambda i: i in fset  # noqa: E731
        else:
            name, value = f[1], pyval(f[2])
            flt = lambda i: attrs[i].get(name, MISSING) == value  # noqa: E731
        stopset = set(q["stop"] or ())
    else:
        name, value = q["name"], pyval(q["value"])
        flt = lambda i: name in attrs[i] and attrs[i][name] == value  # noqa: E731
        stopset = set()
    return ref_preorder(snap, q["s"], flt, stopset, q["ml"])


def build_call(q, world, cache):
    """(args, kwargs) for the query, re-using the same callables for the same query id."""
    node = world.nodes[q["s"]]
    fn = q["fn"]
    key = q["id"]
    if fn in ("findall", "find"):
        fns = cache.get(key)
        if fns is None:
            f = q.get("f")
            ix = world.index
            if f is None:
                ff = None
            elif f[0] == "flaky":
                fset = frozenset(f[1])

                class Flaky(object):
                    def __init__(self):
                        self.calls = 0

                    def __call__(self, nd):
                        self.calls += 1
                        if self.calls == 1:
                            raise TypeError("filter not ready")
                        return ix(nd) in fset

                ff = Flaky
            elif f[0] == "idx":
                fset = frozenset(f[1])
                ff = lambda nd: ix(nd) in fset  # noqa: E731
            else:
                name, value = f[1], pyval(f[2])
                ff = lambda nd: getattr(nd, name, MISSING) == value  # noqa: E731
            if q.get("stop") is None:
                sf = None
            else:
                sset = frozenset(q["stop"])
                sf = lambda nd: ix(nd) in sset  # noqa: E731
            fns = cache[key] = (ff, sf)
        flt_obj = fns[0]() if isinstance(fns[0], type) else fns[0]  # a fresh stateful filter for every call
        order = [("filter_", flt_obj), ("stop", fns[1]), ("maxlevel", q["ml"])]
        if fn == "findall":
            order += [("mincount", q.get("min")), ("maxcount", q.get("max"))]
    else:
        order = [("value", pyval(q["value"]))]
        if not q.get("dflt"):
            order.append(("name", q["name"]))
        order.append(("maxlevel", q["ml"]))
        if fn == "findall_by_attr":
            order += [("mincount", q.get("min")), ("maxcount", q.get("max"))]
    pos = min(q.get("pos", 0), len(order))
    if fn.endswith("by_attr"):
        pos = max(pos, 1)  # `value` is a required positional argument
        if q.get("dflt"):
            pos = 1
    args = [node] + [v for _, v in order[:pos]]
    kwargs = {k: v for k, v in order[pos:]}
    return args, kwargs


def count_named(msg, number):
    return re.search(r"(?<![\w.])%d(?!\w)" % number, msg) is not None


def run(cfg, ops=None, rng=None):
    prop = "C14"
    res = Result()
    world, model = struct.build_world(cfg)
    attrs = []
    targets = cfg["targets"]
    # (Node's repr - used in CountError messages - spells the names along the path: only all-AnyNode trees can drop them)
    nameless_ok = all(c in ("HAny", "PAny", "HSym", "PSym", "HSymMix") for c in cfg["classes"])
    for i, node in enumerate(world.nodes):
        # (a link shares its target's attribute record: reads and writes go through)
        a = attrs[targets[i]] if targets[i] is not None else {"name": "n%d" % i}
        for k, v in sorted(cfg["init_attrs"][i].items()):
            setattr(node, k, pyval(v))
            a[k] = pyval(v)
        attrs.append(a)
    h = hashlib.blake2b(digest_size=16)
    h.update(repr(sorted((k, repr(v)) for k, v in cfg.items())).encode())
    replay = ops is not None
    length = len(ops) if replay else cfg["L"]
    cache = {}
    queries = []
    try:
        for step in range(length):
            snap = model.snapshot()
            n = len(snap)
            if replay:
                op = ops[step]
            else:
                r = rng.random()
                if r < cfg["q_rate"]:
                    if queries and rng.random() < 0.55:
                        op = dict(rng.choice(queries))
                    else:
                        op = gen_query(rng, world, snap, attrs, len(queries), cfg.get("attrs", ATTRS))
                        queries.append(op)
                elif r < cfg["q_rate"] + cfg["a_rate"]:
                    i = rng.randrange(n)
                    k = rng.choice(cfg.get("attrs", ATTRS))
                    if nameless_ok and targets[i] is None and "name" in attrs[i] and rng.random() < 0.15:
                        op = {"op": "delattr", "n": i, "k": "name"}  # an AnyNode needs no name
                    elif k in attrs[i] and rng.random() < 0.3 and targets[i] is None:
                        op = {"op": "delattr", "n": i, "k": k}
                    else:
                        op = {"op": "setattr", "n": i, "k": k, "v": rng.choice(VALUES)}
                else:
                    op = gen_op(rng, model, cfg, step)
                res.ops.append(op)
            kind = op["op"]
            res.steps += 1
            res.bump("ops")
            if kind == "setattr":
                if op["n"] < n:
                    setattr(world.nodes[op["n"]], op["k"], pyval(op["v"]))
                    attrs[op["n"]][op["k"]] = pyval(op["v"])
                    res.bump("attr_writes")
                continue
            if kind == "delattr":
                if op["n"] < n and op["k"] in attrs[op["n"]] and targets[op["n"]] is None and (op["k"] != "name" or nameless_ok):
                    delattr(world.nodes[op["n"]], op["k"])
                    del attrs[op["n"]][op["k"]]
                    res.bump("attr_deletes")
                continue
            if kind != "q":
                if not _in_range(op, n):
                    continue
                try:
                    status, exc = exec_op(world, op)
                except Watchdog as wd:
                    raise Violation("GUARD", "hang", step, "hang", str(wd))
                if invariants.check_forest(world):
                    raise Violation("GUARD", "guard", step, "guard", "forest inconsistent after %r" % (op,))
                model.load(world.snapshot())
                res.bump("mutations")
                for f in world.fired:
                    res.bump("fault_" + f[4])
                    res.bump("fault@" + f[1])
                h.update(repr((step, kind, status)).encode())
                continue
            # a query, issued to both modules
            if op["s"] >= n:
                continue
            q = op
            want = reference(q, snap, attrs)
            cnt = len(want)
            fn = q["fn"]
            if fn.startswith("findall"):
                mn, mx = q.get("min"), q.get("max")
                if mn is not None and cnt < mn:
                    expect = ("CountError", mn)
                elif mx is not None and cnt > mx:
                    expect = ("CountError", mx)
                else:
                    expect = ("value", tuple(want))
            else:
                if cnt == 0:
                    expect = ("value", None)
                elif cnt == 1:
                    expect = ("value", want[0])
                else:
                    expect = ("CountError", 1)
            if fn in ("findall", "find") and q.get("f") and q["f"][0] == "flaky":
                visited = ref_preorder(snap, q["s"], lambda i: True, set(q["stop"] or ()), q["ml"])
                if visited:
                    expect = ("TypeError", None)
            outcomes = []
            for mname, mod in MODS:
                args, kwargs = build_call(q, world, cache)
                try:
                    with OpGuard(3.0, 700):
                        val = getattr(mod, fn)(*args, **kwargs)
                    if isinstance(val, tuple):
                        got = ("value", tuple(world.index(x) for x in val))
                    elif val is None:
                        got = ("value", None)
                    else:
                        got = ("value", world.index(val))
                    if fn.startswith("findall") and not isinstance(val, tuple):
                        got = ("value", ("not-a-tuple", type(val).__name__))
                except Watchdog as wd:
                    raise Violation(prop, "hang", step, "hang:" + fn, "step %d %s: %s.%s does not terminate (%s)" % (step, q, mname, fn, wd))
                except Exception as exc:  # noqa: BLE001
                    got = ("exc", type(exc).__name__, str(exc))
                outcomes.append(got)
                res.bump("queries_" + mname)
            res.bump("q_" + fn)
            again = "reissued" if q["id"] in cache and cache.get(("seen", q["id"])) else "first"
            cache[("seen", q["id"])] = True
            if again == "reissued":
                res.bump("queries_reissued")
            res.sigs.add(stable_hash((fn, struct.shape_sig(model, {q["s"]: "S"}), expect[0], min(cnt, 3), q["ml"], q.get("min") is not None, q.get("max") is not None, again)))
            h.update(repr((step, fn, outcomes)).encode())
            ctx = "step %d %s on links %r attrs %r" % (step, q, snap, attrs)
            got = outcomes[0]
            if expect[0] == "TypeError":
                if got[0] != "exc" or got[1] != "TypeError":
                    raise Violation(prop, "result", step, "result:filter-error:" + fn, "%s: the filter raised TypeError, search.%s gave %r" % (ctx, fn, got))
            elif expect[0] == "value":
                if got != expect:
                    raise Violation(prop, "result", step, "result:" + fn, "%s: search.%s gave %r, specified %r" % (ctx, fn, got, expect[1]))
            else:
                if got[0] != "exc" or got[1] != "CountError":
                    raise Violation(prop, "count", step, "count:" + fn, "%s: search.%s gave %r, specified CountError (%d matches, bound %d)" % (ctx, fn, got, cnt, expect[1]))
                if not (count_named(got[2], expect[1]) and count_named(got[2], cnt)):
                    raise Violation(prop, "message", step, "message:" + fn, "%s: CountError message %r does not name bound %d and count %d" % (ctx, got[2], expect[1], cnt))
            if outcomes[1] != outcomes[0]:
                raise Violation(
                    prop,
                    "cached",
                    step,
                    "cached:" + fn,
                    "%s: cachedsearch.%s gave %r, search.%s gave %r" % (ctx, fn, outcomes[1], fn, outcomes[0]),
                )
    except Violation as v:
        res.violation = v
    res.digest = h.hexdigest()
    res.bump("runs")
    return res


def _in_range(op, n):
    for key in ("n", "p"):
        v = op.get(key)
        if isinstance(v, int) and v >= n:
            return False
    xs = op.get("xs")
    if isinstance(xs, list):
        return all(not isinstance(x, int) or x < n for x in xs)
    return True


def simplify_op(op):
    if op["op"] == "q":
        for k in ("stop", "f"):
            if op.get(k) is not None:
                yield dict(op, **{k: None})
        if op.get("pos"):
            yield dict(op, pos=0)
        return
    if op["op"] in ("setattr", "delattr"):
        return
    for alt in struct.simplify_op(op):
        yield alt


_ = (apply_op, expect_of)
