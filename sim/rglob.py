"""C08: Resolver.glob denotes exactly the pattern's nodes, and the class-wide
compiled-pattern cache (shared by all Resolver instances, cleared at a size
threshold) is unobservable.

A run is a history of glob calls issued by a pool of resolvers (all
ignorecase/relax combinations) that share the process-wide cache, over a
pattern pool sized around the run's `_MAXCACHE` knob, interleaved with tree
mutations, renames and knob changes.  Every call is judged by an independent,
stateless, regex-free reference, so agreement at every point of every history
*is* cache transparency; the evidence counts cache hits across resolvers and
evictions that really happened.
"""
import hashlib
import unicodedata

import anytree.resolver as resolver_mod
from anytree import Resolver, ResolverError

from . import invariants
from .struct import Result, Violation, stable_hash
from .world import HNode, HNodeBag, HNodeNo, HNodeUnhash, OpGuard, Watchdog, World

KNOWN_OPEN = set()


class HNodeSemi(HNode):
    separator = ";"


class HNodeDC(HNode):
    separator = "::"


class HNodeEqName(HNode):
    """Value equality by name length parity: many distinct nodes are equal."""

    def __eq__(self, other):
        return isinstance(other, HNodeEqName) and len(str(self.name)) % 2 == len(str(other.name)) % 2

    def __ne__(self, other):
        return not self.__eq__(other)

    def __hash__(self):
        return len(str(self.name)) % 2


SEP_CLASSES = {"/": HNode, ";": HNodeSemi, "::": HNodeDC, "/=": HNodeEqName}
# user classes on the default separator: container-like (a leaf is falsy), always falsy, unhashable
USER_CLASSES = {"bag": HNodeBag, "no": HNodeNo, "unhash": HNodeUnhash}

ASCII_NAMES = (
    "a", "A", "b", "aB", "Ab", "ab", "sub0", "sub1", "Sub0", "a.b", "a+b", "a[b]", "(a)", "^a", "a$", "a|b",
    "a{2}", "a\\b", "a b", " a", "", ".", "..", "**", "a*", "a?", "x.y", "xy", "x", "a\nb", "aab", "aXb", "0", "None",
)
# letters whose case mapping is one-to-one in both str.upper() (used by get) and re.IGNORECASE (used by glob)
# may appear together with ignorecase resolvers; the others (sharp s, dotted capital I, ...) only without
SIMPLE_CASE_NAMES = ("ä", "Ä", "éa", "Éa", "ñ", "Ñb", "e\u0301a")  # (the last one: the decomposed spelling of the third)
NONASCII_NAMES = ("ß", "İx", "日本", "ǅ")


def case_safe(name):
    return all(ord(ch) < 128 or ch in "äÄéÉñÑ\u0301\u0308\u0303" for ch in name)


def names_for(sep, ascii_only, rng, k):
    pool = [n for n in ASCII_NAMES if sep not in n]
    other = [s for s in SEP_CLASSES if s != sep and sep not in s]
    pool += ["a" + o + "b" for o in other]
    pool += list(SIMPLE_CASE_NAMES)
    if not ascii_only:
        pool += list(NONASCII_NAMES)
    small = rng.sample(pool, min(len(pool), rng.randint(3, 9)))
    return [rng.choice(small) for _ in range(k)]


# -- reference ----------------------------------------------------------------------------------


def wild_match(name, pat, ignorecase):
    """'*' any run, '?' exactly one character, anything else itself, anchored.
    Dynamic programming, no regex."""
    if ignorecase:
        name, pat = name.lower(), pat.lower()
    n, m = len(name), len(pat)
    prev = [False] * (n + 1)
    prev[0] = True
    for j in range(1, m + 1):
        c = pat[j - 1]
        cur = [False] * (n + 1)
        if c == "*":
            cur[0] = prev[0]
            for i in range(1, n + 1):
                cur[i] = prev[i] or cur[i - 1]
        else:
            for i in range(1, n + 1):
                cur[i] = prev[i - 1] and (c == "?" or c == name[i - 1])
        prev = cur
    return prev[n]


def is_wild(comp):
    return "*" in comp or "?" in comp


class RefGlob(object):
    """Stateless reference.  result: list of node indices in traversal order,
    de-duplicated per '**'; dead_ends: number of genuine dead ends met."""

    def __init__(self, snap, names, ignorecase):
        self.snap = snap
        self.names = names
        self.ic = ignorecase
        self.dead_ends = 0

    def preorder(self, i):
        out = []
        stack = [i]
        while stack:
            k = stack.pop()
            out.append(k)
            stack.extend(reversed(self.snap[k][1]))
        return out

    def start(self, node, path, sep):
        parts = path.split(sep)
        if path.startswith(sep):
            while self.snap[node][0] is not None:
                node = self.snap[node][0]
            parts.pop(0)
            if not parts[0]:
                self.dead_ends += 1
                return None, None, "root"
            if not wild_match(self.names[node], parts[0], self.ic):
                self.dead_ends += 1
                return None, None, "root"
            parts.pop(0)
        return node, parts, None

    def walk(self, node, parts):
        if not parts:
            return [node]
        name, rest = parts[0], parts[1:]
        if name == "..":
            p = self.snap[node][0]
            if p is None:
                self.dead_ends += 1
                return []
            return self.walk(p, rest)
        if name in ("", "."):
            return self.walk(node, rest)
        if name == "**":
            out, seen = [], set()
            for sub in self.preorder(node):
                for m in self.walk(sub, rest):
                    if m not in seen:
                        seen.add(m)
                        out.append(m)
            return out
        out = []
        hit = False
        for c in self.snap[node][1]:
            if wild_match(self.names[c], name, self.ic):
                hit = True
                out.extend(self.walk(c, rest))
        if not hit and not is_wild(name):
            self.dead_ends += 1
        return out

    def glob(self, node, path, sep):
        node, parts, err = self.start(node, path, sep)
        if err:
            return []
        return self.walk(node, parts)


def pattern_flags(path, sep):
    parts = path.split(sep)
    if path.startswith(sep):
        parts = parts[2:]
    has_rec = "**" in parts
    has_up = ".." in parts
    dup_ok = False
    seen_name = False
    for p in parts:
        if p == "..":
            if seen_name:
                dup_ok = True
        elif p not in ("", ".", "**"):
            seen_name = True
    wildfree = not any(is_wild(p) for p in path.split(sep)) and not has_rec
    return has_rec, has_up, dup_ok, wildfree


# -- configuration -------------------------------------------------------------------------------


def gen_cfg(rng, prop, tier):
    n = rng.randint(1, 12 if tier == "thorough" else 9)
    sep = rng.choice(("/", "/", ";", "::", "/="))
    if rng.random() < (0.03 if tier == "thorough" else 0.015):
        n = rng.randint(40, 90)  # results with dozens of matches ('**' on a big tree)
    pool = []
    for ic in (False, True):
        for rx in (False, True):
            pool.append([ic, rx])
    rng.shuffle(pool)
    pool = pool[: rng.randint(2, 4)]
    if rng.random() < 0.3:
        pool.append(list(rng.choice(pool)))
    any_ic = any(p[0] for p in pool)
    parents = [None] + [rng.choice([None] * 1 + list(range(i)) * 3) if rng.random() < 0.93 else None for i in range(1, n)]
    names = names_for(sep.rstrip("="), any_ic or rng.random() < 0.5, rng, n)
    pathattr = "name" if rng.random() < 0.8 else "key"
    keys = [rng.choice((None, 0, 1, 2, 10, "a", "A")) for _ in range(n)]
    return {
        "prop": "C08",
        "sep": sep,
        "parents": parents,
        "names": names,
        "keys": keys,
        "pathattr": pathattr,
        "resolvers": pool,
        "maxcache": rng.choice((1, 2, 3, 5, 20)),
        "poolsize": rng.choice((2, 3, 4, 6, 8, 24)),
        "L": rng.randint(5, 40),
        "mut": rng.choice((0.0, 0.1, 0.25)),
        "ucls": rng.choice(sorted(USER_CLASSES)) if sep == "/" and rng.random() < 0.25 else None,
    }


def brief_cfg(cfg):
    return {k: cfg[k] for k in ("sep", "parents", "names", "pathattr", "resolvers", "maxcache", "poolsize", "L")}


def gen_pattern(rng, snap, names, sep, start):
    """Pattern from components chosen with an eye on the tree."""
    n = len(snap)
    comps = []
    absolute = rng.random() < 0.25
    node = start
    if absolute:
        r = node
        while snap[r][0] is not None:
            r = snap[r][0]
        kind = rng.random()
        if kind < 0.6:
            comps.append(names[r])
        elif kind < 0.75:
            comps.append(wildify(rng, names[r]))
        elif kind < 0.9:
            comps.append("zz")
        else:
            comps.append("")
        node = r
    k = rng.choice((0, 1, 1, 2, 2, 3, 4))
    for _ in range(k):
        r = rng.random()
        kids = snap[node][1] if node is not None else ()
        if r < 0.35 and kids:
            c = rng.choice(kids)
            comps.append(names[c])
            node = c
        elif r < 0.55:
            base = names[rng.choice(kids)] if kids else rng.choice(names)
            comps.append(wildify(rng, base))
            if kids:
                node = rng.choice(kids)
        elif r < 0.65:
            comps.append("**")
        elif r < 0.75:
            comps.append("..")
            if node is not None and snap[node][0] is not None:
                node = snap[node][0]
        elif r < 0.82:
            comps.append(rng.choice((".", "")))
        elif r < 0.92:
            comps.append(rng.choice(names))
        else:
            comps.append(rng.choice(("zz", "*", "?", "??", "*a*", "a*", "*b")))
    comps = [c for c in comps if sep not in c]
    for k, c in enumerate(comps):
        if any(ord(ch) > 127 for ch in c) and rng.random() < 0.3:
            # the same text in the other Unicode normal form is another string: it names nobody (get and glob alike)
            alt = unicodedata.normalize("NFD", c)
            comps[k] = alt if alt != c else unicodedata.normalize("NFC", c)
    path = sep.join(comps)
    if absolute:
        path = sep + path
    if rng.random() < 0.1:
        path += sep
    return path


def wildify(rng, name):
    if not name:
        return rng.choice(("*", "?", "**"))
    r = rng.random()
    i = rng.randrange(len(name))
    if r < 0.3:
        return name[:i] + "?" + name[i + 1:]
    if r < 0.55:
        return name[:i] + "*"
    if r < 0.75:
        return "*" + name[i:]
    if r < 0.9:
        j = rng.randrange(i, len(name) + 1)
        return name[:i] + "*" + name[j:]
    return name[:i] + "?" * rng.randint(1, 2) + name[i + 1:]


def sibling_unique(snap, names, ignorecase):
    for _, kids in snap:
        seen = set()
        for c in kids:
            k = names[c].lower() if ignorecase else names[c]
            if k in seen:
                return False
            seen.add(k)
    return True


# -- the run -----------------------------------------------------------------------------------------


def run(cfg, ops=None, rng=None):
    prop = "C08"
    res = Result()
    cls = USER_CLASSES[cfg["ucls"]] if cfg.get("ucls") else SEP_CLASSES[cfg["sep"]]
    sep = cls.separator
    pathattr = cfg["pathattr"]
    world = World()
    n = len(cfg["parents"])
    names = list(cfg["names"])
    keys = list(cfg["keys"])
    for i in range(n):
        kw = {}
        if keys[i] is not None:
            kw["key"] = keys[i]
        node = cls(names[i], **kw)
        world.register(node)
    for i, p in enumerate(cfg["parents"]):
        if p is not None:
            world.nodes[i].parent = world.nodes[p]
    resolvers = [Resolver(pathattr, ignorecase=ic, relax=rx) for ic, rx in cfg["resolvers"]]
    flags = [list(f) for f in cfg["resolvers"]]
    strict_twin = {}
    old_max = resolver_mod._MAXCACHE
    resolver_mod._MAXCACHE = cfg["maxcache"]
    Resolver._match_cache.clear()  # every run starts like a fresh process
    h = hashlib.blake2b(digest_size=16)
    h.update(repr(sorted(cfg.items())).encode())
    replay = ops is not None
    length = len(ops) if replay else cfg["L"]
    pool = []
    canon = {}
    try:
        for step in range(length):
            snap = world.snapshot()
            labels = [str(keys[i]) if pathattr == "key" else names[i] for i in range(n)]
            if replay:
                op = ops[step]
            else:
                r = rng.random()
                if r < cfg["mut"] and n > 1:
                    if rng.random() < 0.5:
                        op = {"op": "rename", "n": rng.randrange(n), "name": rng.choice(names)}
                    else:
                        i = rng.randrange(n)
                        cand = [None] + [j for j in range(n) if j != i]
                        op = {"op": "parent", "n": i, "p": rng.choice(cand)}
                elif r < cfg["mut"] + 0.04:
                    op = {"op": "maxcache", "v": rng.choice((1, 2, 3, 5, 20))}
                elif r < cfg["mut"] + 0.07 and all(case_safe(nm) for nm in names):
                    # the flags are public attributes of a resolver: change them on a live instance
                    op = {"op": "setflag", "r": rng.randrange(len(resolvers)), "ic": rng.random() < 0.5, "rx": rng.random() < 0.5}
                else:
                    start = rng.randrange(n)
                    if pool and (len(pool) >= cfg["poolsize"] or rng.random() < 0.5):
                        pat = rng.choice(pool)
                    else:
                        pat = gen_pattern(rng, snap, labels, sep, start)
                        pool.append(pat)
                    op = {"op": "glob", "r": rng.randrange(len(resolvers)), "s": start, "pat": pat}
                res.ops.append(op)
            kind = op["op"]
            res.steps += 1
            res.bump("ops")
            if kind == "rename":
                if op["n"] < n and sep not in op["name"]:
                    world.nodes[op["n"]].name = op["name"]
                    names[op["n"]] = op["name"]
                    res.bump("renames")
                continue
            if kind == "parent":
                if op["n"] < n and (op["p"] is None or op["p"] < n):
                    try:
                        world.nodes[op["n"]].parent = None if op["p"] is None else world.nodes[op["p"]]
                        res.bump("moves")
                    except Exception:  # noqa: BLE001  LoopError: not this property's business
                        pass
                    if invariants.check_forest(world):
                        raise Violation("GUARD", "guard", step, "guard", "forest inconsistent after %r" % (op,))
                continue
            if kind == "setflag":
                if op["r"] < len(resolvers) and all(case_safe(nm) for nm in names):
                    resolvers[op["r"]].ignorecase = op["ic"]
                    resolvers[op["r"]].relax = op["rx"]
                    flags[op["r"]] = [op["ic"], op["rx"]]
                    res.bump("flag_changes")
                continue
            if kind == "maxcache":
                resolver_mod._MAXCACHE = op["v"]
                res.bump("knob_changes")
                continue
            # glob call
            if op["r"] >= len(resolvers) or op["s"] >= n:
                continue
            ic, rx = flags[op["r"]]
            rsv = resolvers[op["r"]]
            # equal pattern strings are one str object in search and in replay alike
            # (a caller re-using a constant), so identity-keyed memoisation behaves the same
            pat = canon.setdefault(op["pat"], op["pat"])
            startnode = world.nodes[op["s"]]
            unique = sibling_unique(snap, labels, ic)
            if not rx and not unique:
                # strict mode is specified for sibling-unique names only: issue the call relaxed instead
                key = (ic,)
                rsv = strict_twin.get(key)
                if rsv is None:
                    rsv = strict_twin[key] = Resolver(pathattr, ignorecase=ic, relax=True)
                rx = True
                res.bump("strict_calls_downgraded")
            ref = RefGlob(snap, labels, ic)
            want = ref.glob(op["s"], pat, sep)
            cache_before = len(Resolver._match_cache)
            keys_before = set(Resolver._match_cache)
            try:
                with OpGuard(3.0 + 0.05 * n, 700):
                    got = rsv.glob(startnode, pat)
                exc = None
            except Watchdog as wd:
                raise Violation(prop, "hang", step, "hang:glob", "step %d glob(start=%d, %r) does not terminate (%s)" % (step, op["s"], pat, wd))
            except Exception as e:  # noqa: BLE001
                got, exc = None, e
            # probes (coverage only; never part of the verdict)
            keys_after = set(Resolver._match_cache)
            if len(keys_after) < cache_before or (keys_before - keys_after):
                res.bump("cache_evictions")
            if keys_before & keys_after and not (keys_after - keys_before):
                res.bump("calls_served_from_cache")
            res.bump("glob_calls")
            res.bump("glob_relaxed" if rx else "glob_strict")
            has_rec, has_up, dup_ok, wildfree = pattern_flags(pat, sep)
            gi = None if got is None else [world.index(x) for x in got]
            excname = type(exc).__name__ if exc is not None else None
            h.update(repr((step, op["r"], op["s"], pat, gi, excname)).encode())
            res.sigs.add(stable_hash((pat_shape(pat, sep), ic, rx, excname, min(len(want), 3), ref.dead_ends > 0, unique)))
            ctx = "step %d glob(start=%d, %r) ignorecase=%s relax=%s names=%r links=%r" % (step, op["s"], pat, ic, rx, labels, snap)
            if exc is not None and not isinstance(exc, ResolverError):
                raise Violation(prop, "crash", step, "crash:%s:%s" % ("relaxed" if rx else "strict", excname), "%s raised %s: %s" % (ctx, excname, exc))
            if rx:
                if exc is not None:
                    raise Violation(prop, "relaxed-raises", step, "relaxed-raises:" + excname, "%s raised %s: %s" % (ctx, excname, exc))
                if set(gi) != set(want):
                    raise Violation(prop, "set", step, "set:relaxed", "%s returned %r, the pattern denotes %r" % (ctx, gi, want))
                if not dup_ok and len(set(gi)) != len(gi):
                    raise Violation(prop, "duplicates", step, "duplicates", "%s returned duplicates %r" % (ctx, gi))
                if not has_rec and not has_up and gi != want:
                    raise Violation(prop, "order", step, "order", "%s returned %r, pre-order is %r" % (ctx, gi, want))
            else:
                if exc is None:
                    res.bump("strict_returned")
                    # 'the same list' as the relaxed call: set, and order/duplicates under the same conditions
                    relaxed = Resolver(pathattr, ignorecase=ic, relax=True).glob(startnode, pat)
                    ri = [world.index(x) for x in relaxed]
                    if gi != ri:
                        raise Violation(prop, "strict-list", step, "strict-list", "%s returned %r, relaxed mode returns %r" % (ctx, gi, ri))
                    if set(gi) != set(want):
                        raise Violation(prop, "set", step, "set:strict", "%s returned %r, the pattern denotes %r" % (ctx, gi, want))
                else:
                    res.bump("strict_raised")
                    if ref.dead_ends == 0:
                        raise Violation(
                            prop,
                            "strict-raises",
                            step,
                            "strict-raises:" + excname,
                            "%s raised %s (%s) although no literal component, root component or '..' step is a dead end; the pattern denotes %r"
                            % (ctx, excname, exc, want),
                        )
                if wildfree:
                    # cross-API agreement with get on wildcard-free paths
                    getter = Resolver(pathattr, ignorecase=ic, relax=False)
                    try:
                        gnode, gexc = getter.get(startnode, pat), None
                    except ResolverError as e:
                        gnode, gexc = None, e
                    res.bump("get_agreement_checks")
                    if (exc is None) != (gexc is None):
                        raise Violation(
                            prop, "get-agreement", step, "get-agreement:outcome",
                            "%s: glob %s, get %s" % (ctx, "returned %r" % gi if exc is None else "raised %s" % excname,
                                                    "returned %r" % world.index(gnode) if gexc is None else "raised %s" % type(gexc).__name__),
                        )
                    if exc is None and (len(got) != 1 or got[0] is not gnode):
                        raise Violation(prop, "get-agreement", step, "get-agreement:node", "%s: glob returned %r, get returned %r" % (ctx, gi, world.index(gnode)))
                    if exc is not None and type(exc) is not type(gexc):
                        raise Violation(prop, "get-agreement", step, "get-agreement:class", "%s: glob raised %s, get raised %s" % (ctx, excname, type(gexc).__name__))
    except Violation as v:
        res.violation = v
    finally:
        resolver_mod._MAXCACHE = old_max
        Resolver._match_cache.clear()
    res.digest = h.hexdigest()
    res.bump("runs")
    return res


def pat_shape(pat, sep):
    out = []
    for p in pat.split(sep):
        if p in ("", ".", "..", "**"):
            out.append(p)
        elif is_wild(p):
            out.append("W")
        else:
            out.append("n")
    return ("abs" if pat.startswith(sep) else "rel", tuple(out))


def simplify_op(op):
    if op["op"] == "glob":
        return
    return
    yield


def simplify_cfg(cfg, ops):
    # drop the last node if nothing refers to it
    n = len(cfg["parents"])
    if n > 1:
        last = n - 1
        used = any(p == last for p in cfg["parents"]) or any(
            (o.get("n") == last or o.get("p") == last or o.get("s") == last) for o in ops
        )
        if not used:
            c2 = dict(cfg)
            for k in ("parents", "names", "keys"):
                c2[k] = cfg[k][:-1]
            yield c2, ops
    if len(cfg["resolvers"]) > 1:
        for i in range(len(cfg["resolvers"])):
            if not any(o.get("r") == i for o in ops if o["op"] == "glob"):
                c2 = dict(cfg)
                c2["resolvers"] = cfg["resolvers"][:i] + cfg["resolvers"][i + 1:]
                o2 = [dict(o, r=o["r"] - 1) if o["op"] == "glob" and o["r"] > i else o for o in ops]
                yield c2, o2
                break
