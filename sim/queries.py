"""Read-only queries on a universe.

- reference navigation values computed by the harness's own walks over an
  observed (parent, children) snapshot  (oracle of C04)
- the library's navigation values mapped to node indices
- the full query battery (iterators, search, Walker, Resolver, RenderTree,
  exporters) mapped to node indices, for the differential twin machines
  (C17, C18).  Sampled parameters derive from an explicit `qseed`, so a
  recorded query operation replays exactly.
"""
import random
import warnings

import anytree
from anytree import (
    AsciiStyle,
    ContStyle,
    LevelOrderGroupIter,
    LevelOrderIter,
    PostOrderIter,
    PreOrderIter,
    RenderTree,
    Resolver,
    Walker,
    ZigZagGroupIter,
)
from anytree import cachedsearch, search, util
from anytree.exporter import DictExporter, DotExporter, JsonExporter, MermaidExporter, UniqueDotExporter
from anytree.importer import DictImporter, JsonImporter

NAV_ATTRS = (
    "path",
    "ancestors",
    "root",
    "depth",
    "is_root",
    "is_leaf",
    "siblings",
    "descendants",
    "leaves",
    "size",
    "height",
    "iter_path_reverse",
)


# -- reference -----------------------------------------------------------------------------


def ref_nav(snap):
    """Per node, the definitions of C04 evaluated on a snapshot."""
    n = len(snap)
    par = [p for p, _ in snap]
    kid = [c for _, c in snap]
    out = []

    def path(i):
        chain = []
        while i is not None:
            chain.append(i)
            i = par[i]
        chain.reverse()
        return tuple(chain)

    def desc(i):
        res = []
        stack = list(reversed(kid[i]))
        while stack:
            c = stack.pop()
            res.append(c)
            stack.extend(reversed(kid[c]))
        return tuple(res)

    heights = [None] * n

    def height(i):
        # longest downward path, iteratively over the pre-order
        best = 0
        stack = [(i, 0)]
        while stack:
            j, d = stack.pop()
            if d > best:
                best = d
            for c in kid[j]:
                stack.append((c, d + 1))
        return best

    for i in range(n):
        p = path(i)
        d = desc(i)
        sub = (i,) + d
        out.append(
            {
                "path": p,
                "ancestors": p[:-1],
                "root": p[0],
                "depth": len(p) - 1,
                "is_root": par[i] is None,
                "is_leaf": len(kid[i]) == 0,
                "siblings": () if par[i] is None else tuple(c for c in kid[par[i]] if c != i),
                "descendants": d,
                "leaves": tuple(j for j in sub if not kid[j]),
                "size": 1 + len(d),
                "height": height(i),
                "iter_path_reverse": tuple(reversed(p)),
            }
        )
    return out


def ref_commonancestors(snap, idxs):
    if not idxs:
        return ()
    par = [p for p, _ in snap]

    def anc(i):
        chain = []
        i = par[i]
        while i is not None:
            chain.append(i)
            i = par[i]
        chain.reverse()
        return chain

    chains = [anc(i) for i in idxs]
    out = []
    for k in range(min(len(c) for c in chains)):
        v = chains[0][k]
        if all(c[k] == v for c in chains):
            out.append(v)
        else:
            break
    return tuple(out)


def ref_sibling(snap, i, delta):
    p = snap[i][0]
    if p is None:
        return None
    kids = snap[p][1]
    j = kids.index(i) + delta
    if 0 <= j < len(kids):
        return kids[j]
    return None


# -- library values ---------------------------------------------------------------------------


def _idx(world, v):
    """Map a library result to indices (recursively through tuples/lists)."""
    if v is None or isinstance(v, (bool, int, str, float)):
        return v
    if isinstance(v, (tuple, list)):
        return tuple(_idx(world, x) for x in v)
    return world.index(v)


def lib_nav_one(world, node, attr):
    if attr == "iter_path_reverse":
        return tuple(world.index(x) for x in node.iter_path_reverse())
    return _idx(world, getattr(node, attr))


def outcome(fn):
    """Value of fn() or ('!', exception class name)."""
    try:
        return fn()
    except Exception as exc:  # noqa: BLE001
        return ("!", type(exc).__name__)


# -- the battery ----------------------------------------------------------------------------------

ITERS = (
    ("pre", PreOrderIter),
    ("post", PostOrderIter),
    ("level", LevelOrderIter),
    ("levelgroup", LevelOrderGroupIter),
    ("zigzag", ZigZagGroupIter),
)


def battery(world, snap, qseed, heavy=True, exporters=True, helpers=True, part=None):
    """List of (label, index-mapped result).  `snap` is the observed snapshot
    (used only to choose parameters, identically for both twins)."""
    rng = random.Random(qseed)
    nodes = world.nodes
    n = len(nodes)
    ix = world.index
    out = []
    add = out.append
    roots = [i for i in range(n) if snap[i][0] is None]
    # 1. navigation
    prng = random.Random(qseed ^ 0x5A5A)
    for i in range(n):
        node = nodes[i]
        for attr in NAV_ATTRS:
            if part is not None and prng.random() > part:
                continue
            add(("nav", i, attr, outcome(lambda: lib_nav_one(world, node, attr))))
        if part is not None and prng.random() > part:
            continue
        add(("nav", i, "children", outcome(lambda: _idx(world, node.children))))
        add(("nav", i, "parent", outcome(lambda: ix(node.parent))))
        if helpers:
            add(("util", i, "left", outcome(lambda: ix(util.leftsibling(node)))))
            add(("util", i, "right", outcome(lambda: ix(util.rightsibling(node)))))
    # 2. commonancestors
    if helpers:
        add(("ca", (), outcome(lambda: _idx(world, util.commonancestors()))))
        for i in range(n):
            add(("ca", (i,), outcome(lambda: _idx(world, util.commonancestors(nodes[i])))))
        if n <= 16:
            capairs = [(i, j) for i in range(n) for j in range(n)]
        else:
            capairs = [(rng.randrange(n), rng.randrange(n)) for _ in range(120)]
        for i, j in capairs:
            add(("ca", (i, j), outcome(lambda: _idx(world, util.commonancestors(nodes[i], nodes[j])))))
    for _ in range(min(6, n)):
        t = [rng.randrange(n) for _ in range(3)]
        if helpers:
            add(("ca", tuple(t), outcome(lambda: _idx(world, util.commonancestors(*[nodes[x] for x in t])))))
    # 3. iterators, unrestricted and restricted
    starts = list(roots)
    for _ in range(2):
        starts.append(rng.randrange(n))
    restr = [(None, None, None)]
    for _ in range(2):
        fset = frozenset(i for i in range(n) if rng.random() < 0.3)
        sset = frozenset(i for i in range(n) if rng.random() < 0.2)
        ml = rng.choice((None, 0, 1, 2, 3, 5))
        restr.append((fset, sset, ml))
    for s in starts:
        for fset, sset, ml in restr:
            kw = {}
            if fset is not None:
                kw["filter_"] = lambda nd, fset=fset: ix(nd) not in fset
                kw["stop"] = lambda nd, sset=sset: ix(nd) in sset
                kw["maxlevel"] = ml
            for label, cls in ITERS:
                add(("iter", label, s, None if fset is None else (tuple(sorted(fset)), tuple(sorted(sset)), ml),
                     outcome(lambda: _idx(world, tuple(cls(nodes[s], **kw))))))
    # 4. search
    for s in starts[:3]:
        fset = frozenset(i for i in range(n) if rng.random() < 0.5)
        flt = lambda nd, fset=fset: ix(nd) in fset  # noqa: E731
        for mod in (search, cachedsearch) if helpers else ():
            mname = mod.__name__.rsplit(".", 1)[-1]
            add(("findall", mname, s, outcome(lambda: _idx(world, mod.findall(nodes[s], filter_=flt)))))
            add(("find", mname, s, outcome(lambda: _idx(world, mod.find(nodes[s], filter_=flt)))))
            cnt = rng.choice((0, 1, 2))
            add(("findall-min", mname, s, cnt, outcome(lambda: _idx(world, mod.findall(nodes[s], filter_=flt, mincount=cnt)))))
            add(("findall-max", mname, s, cnt, outcome(lambda: _idx(world, mod.findall(nodes[s], filter_=flt, maxcount=cnt)))))
            nm = "n%d" % rng.randrange(n)
            add(("findall_by_attr", mname, s, nm, outcome(lambda: _idx(world, mod.findall_by_attr(nodes[s], nm)))))
            add(("find_by_attr", mname, s, nm, outcome(lambda: _idx(world, mod.find_by_attr(nodes[s], nm)))))
    if not heavy:
        return out
    # 5. Walker on all ordered pairs
    w = Walker()
    if n <= 16:
        pairs = [(i, j) for i in range(n) for j in range(n)]
    else:
        pairs = [(rng.randrange(n), rng.randrange(n)) for _ in range(120)]
    for i, j in pairs:
        add(("walk", i, j, outcome(lambda: _idx(world, w.walk(nodes[i], nodes[j])))))
    # 6. Resolver
    names = []
    for nd in nodes:
        try:
            names.append(str(getattr(nd, "name", None)))
        except Exception:  # noqa: BLE001  (a broken forwarding path; the probe/differential reports it)
            names.append("?")
    resolvers = (("strict", Resolver("name")), ("relaxed", Resolver("name", relax=True)),
                 ("nocase", Resolver("name", ignorecase=True)))
    sep = "/"
    paths = []
    for _ in range(4):
        tgt = rng.randrange(n)
        chain = []
        k = tgt
        while k is not None:
            chain.append(names[k])
            k = snap[k][0]
        chain.reverse()
        paths.append(sep + sep.join(chain))
        if len(chain) > 1:
            paths.append(sep.join(chain[1:]))
    paths += ["..", "../..", ".", "", "nX", "../n1", "/nX", "/"]
    globs = ["*", "**", "*/*", "**/n*", "n?", "../*", "*/..", "**/..", "n1*/**", "/*"]
    for s in starts[:3]:
        for rname, r in resolvers:
            for p in paths:
                add(("get", rname, s, p, outcome(lambda: ix(r.get(nodes[s], p)))))
            for p in paths[:4] + globs:
                add(("glob", rname, s, p, outcome(lambda: _idx(world, r.glob(nodes[s], p)))))
    # 7. RenderTree
    for s in roots[:3] + starts[-1:]:
        for style in (AsciiStyle(), ContStyle()):
            add(("render", s, type(style).__name__,
                 outcome(lambda: tuple((pre, fill, ix(nd)) for pre, fill, nd in RenderTree(nodes[s], style=style)))))
        ml = rng.choice((1, 2, 3))
        add(("render-max", s, ml,
             outcome(lambda: tuple((pre, fill, ix(nd)) for pre, fill, nd in RenderTree(nodes[s], maxlevel=ml)))))
        add(("render-by_attr", s, outcome(lambda: RenderTree(nodes[s]).by_attr("name"))))
        add(("render-rev", s,
             outcome(lambda: tuple((pre, fill, ix(nd)) for pre, fill, nd in RenderTree(nodes[s], childiter=reversed)))))
    if not exporters:
        return out
    # 8. exporters (names only, so both twins print the same text)
    for s in roots[:3]:
        attriter = lambda attrs: [(k, v) for k, v in sorted(attrs) if k == "name"]  # noqa: E731
        add(("dict", s, outcome(lambda: DictExporter(attriter=attriter).export(nodes[s]))))
        add(("json", s, outcome(lambda: JsonExporter(DictExporter(attriter=attriter), sort_keys=True).export(nodes[s]))))
        # importers build a tree of the universe's own node class (node-typed arguments all the way)
        cls = type(nodes[s])
        if not hasattr(cls, "target"):
            def roundtrip(use_json):
                data = DictExporter(attriter=attriter).export(nodes[s])
                if use_json:
                    root = JsonImporter(DictImporter(nodecls=cls)).import_(JsonExporter(DictExporter(attriter=attriter)).export(nodes[s]))
                else:
                    root = DictImporter(nodecls=cls).import_(data)
                return DictExporter(attriter=attriter).export(root) == data, type(root).__name__ == cls.__name__

            add(("import-dict", s, outcome(lambda: roundtrip(False))))
            add(("import-json", s, outcome(lambda: roundtrip(True))))
        fset = frozenset(i for i in range(n) if rng.random() < 0.2)
        sset = frozenset(i for i in range(n) if rng.random() < 0.15)
        ml = rng.choice((None, None, 1, 2, 3))
        kw = dict(filter_=lambda nd: ix(nd) not in fset, stop=lambda nd: ix(nd) in sset, maxlevel=ml)
        for label, cls in (("dot", DotExporter), ("udot", UniqueDotExporter), ("mermaid", MermaidExporter)):
            add((label, s, outcome(lambda: tuple(cls(nodes[s])))))
            add((label + "-r", s, (tuple(sorted(fset)), tuple(sorted(sset)), ml), outcome(lambda: tuple(cls(nodes[s], **kw)))))
    return out


def lifetime_probe(world):
    """A tree stays alive as long as any one of its nodes is referenced: keep a reference to one deepest
    node only, drop everything else the harness holds, collect garbage, and walk up.  Returns None or a
    message.  Destroys the universe (end of run only)."""
    import gc

    snap = world.snapshot()
    n = len(snap)
    depth = [0] * n
    best = None
    for i in range(n):
        d, j = 0, i
        while snap[j][0] is not None and d <= n:
            j = snap[j][0]
            d += 1
        depth[i] = d
        if best is None or d > depth[best]:
            best = i
    if best is None or depth[best] == 0:
        return None
    chain = [best]
    while snap[chain[-1]][0] is not None:
        chain.append(snap[chain[-1]][0])
    chain.reverse()
    size = 0
    stack = [chain[0]]
    while stack:
        j = stack.pop()
        size += 1
        stack.extend(snap[j][1])
    want = [id(world.nodes[j]) for j in chain]
    leaf = world.nodes[best]
    del world.nodes[:]
    world._idx.clear()
    snap = None
    gc.collect()
    got = [id(x) for x in leaf.path]
    if got != want:
        return "with only node %d still referenced, its path has %d nodes (was %d: the chain %r)" % (best, len(got), len(want), chain)
    got_size = leaf.root.size
    if got_size != size:
        return "with only node %d still referenced, its tree has %d nodes (was %d)" % (best, got_size, size)
    return None


def first_difference(a, b):
    if len(a) != len(b):
        return ("length", len(a), len(b))
    for x, y in zip(a, b):
        if x != y:
            return (x, y)
    return None


__all__ = ["battery", "ref_nav", "ref_commonancestors", "ref_sibling", "lib_nav_one", "NAV_ATTRS", "first_difference"]
_ = (anytree, warnings)
