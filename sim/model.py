"""Reference model: an ordered forest over node indices with the ideal semantics
of the property statements (C02 effect/refusal, C16 hook trace, C03 'nothing
changes').  Nothing here is taken from the implementation's control flow except
what the statements themselves fix (validation order TreeError-before-LoopError,
detach-all-then-attach-in-order, constructor = parent assignment then children
assignment iff the argument is truthy).

Item encoding in operations: an int is a node index, {"nn": tag} is a non-node.
"""


def is_nn(x):
    return isinstance(x, dict)


class Expect(object):
    """What the model expects from one operation.

    exc      None (must succeed) or 'TreeError' / 'LoopError' / 'TypeError'
    trace    the hook events (kind, node, arg) of the fault-free execution up to
             the point where the call returns or is refused
    loop_at  for a children assignment refused with LoopError: position in xs
    """

    __slots__ = ("exc", "trace", "loop_at", "noop", "phase_marks")

    def __init__(self, exc=None, trace=(), loop_at=None, noop=False):
        self.exc = exc
        self.trace = list(trace)
        self.loop_at = loop_at
        self.noop = noop


class ForestModel(object):
    def __init__(self):
        self.parent = []
        self.children = []
        self.family = []  # 'node' or 'light'

    def copy(self):
        m = ForestModel()
        m.parent = list(self.parent)
        m.children = [list(c) for c in self.children]
        m.family = list(self.family)
        return m

    def add(self, family):
        self.parent.append(None)
        self.children.append([])
        self.family.append(family)
        return len(self.parent) - 1

    def __len__(self):
        return len(self.parent)

    # -- queries ----------------------------------------------------------------
    def snapshot(self):
        return tuple((self.parent[i], tuple(self.children[i])) for i in range(len(self.parent)))

    def load(self, snap):
        """Re-synchronise from an observed snapshot (after a failed real call)."""
        for i, (p, cs) in enumerate(snap):
            self.parent[i] = p
            self.children[i] = list(cs)

    def ancestors(self, n):
        out = []
        p = self.parent[n]
        limit = len(self.parent)
        while p is not None:
            out.append(p)
            p = self.parent[p]
            if len(out) > limit:
                raise RuntimeError("reference model holds a parent cycle (harness error)")
        return out

    def root(self, n):
        limit = len(self.parent)
        while self.parent[n] is not None:
            n = self.parent[n]
            limit -= 1
            if limit < 0:
                raise RuntimeError("reference model holds a parent cycle (harness error)")
        return n

    def descendants(self, n):
        out = []
        stack = list(reversed(self.children[n]))
        while stack:
            c = stack.pop()
            out.append(c)
            stack.extend(reversed(self.children[c]))
        return out

    def depth(self, n):
        return len(self.ancestors(n))

    # -- operations ---------------------------------------------------------------
    def _parent_trace(self, n, q, p):
        tr = []
        if q is not None:
            tr.append(("pre_detach", n, q))
            tr.append(("post_detach", n, q))
        if p is not None:
            tr.append(("pre_attach", n, p))
            tr.append(("post_attach", n, p))
        return tr

    def expect_parent(self, n, p):
        if is_nn(p):
            if self.family[n] == "node":
                return Expect("TreeError")
            return Expect("ANY")  # LightNodeMixin + non-node: unspecified, never generated
        q = self.parent[n]
        if p == q:
            return Expect(None, noop=True)
        if p is not None and (p == n or n in self.ancestors(p)):
            return Expect("LoopError")
        return Expect(None, self._parent_trace(n, q, p))

    def apply_parent(self, n, p):
        q = self.parent[n]
        if q == p:
            return  # assigning the parent the node already has changes nothing
        if q is not None:
            self.children[q] = [c for c in self.children[q] if c != n]
        self.parent[n] = p
        if p is not None:
            self.children[p].append(n)

    def expect_children(self, n, xs, container="list"):
        """xs: list of items, or {"noniter": tag}."""
        if isinstance(xs, dict):
            return Expect("TypeError")
        seen = set()
        for x in xs:
            if is_nn(x):
                if self.family[n] == "node":
                    return Expect("TreeError")
                return Expect("ANY")
            if x in seen:
                return Expect("TreeError")
            seen.add(x)
        old = tuple(self.children[n])
        xs = tuple(xs)
        tr = [("pre_detach_children", n, old)]
        for c in old:
            tr.append(("pre_detach", c, n))
            tr.append(("post_detach", c, n))
        tr.append(("post_detach_children", n, old))
        tr.append(("pre_attach_children", n, xs))
        anc = set(self.ancestors(n))
        anc.add(n)
        for j, x in enumerate(xs):
            if x in anc:
                return Expect("LoopError", tr, loop_at=j)
            q = self.parent[x]
            if q == n:
                q = None
            tr.extend(self._parent_trace(x, q, n))
        tr.append(("post_attach_children", n, xs))
        return Expect(None, tr)

    def apply_children(self, n, xs):
        for c in list(self.children[n]):
            self.parent[c] = None
        self.children[n] = []
        for x in xs:
            self.apply_parent(x, n)

    def expect_delchildren(self, n):
        old = tuple(self.children[n])
        tr = [("pre_detach_children", n, old)]
        for c in old:
            tr.append(("pre_detach", c, n))
            tr.append(("post_detach", c, n))
        tr.append(("post_detach_children", n, old))
        return Expect(None, tr)

    def apply_delchildren(self, n):
        for c in self.children[n]:
            self.parent[c] = None
        self.children[n] = []


def children_truthy(spec, container):
    """Truth value of the constructor's `children` argument as Python sees it."""
    if spec is None:
        return False
    if isinstance(spec, dict):
        return spec["noniter"] not in ("none", "zero")
    if container in ("gen", "iter"):
        return True
    return len(spec) > 0
