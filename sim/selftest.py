"""Harness self-tests (never property verdicts): setup, determinism, sensitivity."""
import json
import os
import shutil
import subprocess
import sys
import tempfile
import time

from . import boot
from .engine import PROPS

CHECK = os.path.join(boot.VERIF_DIR, "check")


def scratch_root():
    for d in (os.environ.get("VERIF_SCRATCH"), "/dev/shm", tempfile.gettempdir()):
        if d and os.path.isdir(d) and os.access(d, os.W_OK):
            return d
    return tempfile.gettempdir()


def make_scratch(patch_path):
    """Copy /repo's anytree package to a scratch dir outside /repo and /verif and apply a patch."""
    d = tempfile.mkdtemp(prefix="anytree-scratch-", dir=scratch_root())
    shutil.copytree(os.path.join(boot.anytree_src(), "anytree"), os.path.join(d, "anytree"),
                    ignore=shutil.ignore_patterns("__pycache__", "*.pyc"))
    if patch_path:
        p = subprocess.run(["patch", "-p1", "-s", "-f", "-d", d, "-i", os.path.abspath(patch_path)],
                           stdout=subprocess.PIPE, stderr=subprocess.STDOUT)
        if p.returncode != 0:
            shutil.rmtree(d, ignore_errors=True)
            raise RuntimeError("patch %s does not apply: %s" % (patch_path, p.stdout.decode()))
    return d


def run_check(prop, src, tier="quick", runs=None, seed=None, extra_env=None):
    env = dict(os.environ)
    env["ANYTREE_SRC"] = src
    env["VERIF_EVIDENCE_DIR"] = os.path.join(src, "evidence")
    env["VERIF_REPLAY_DIR"] = os.path.join(src, "replays")
    if seed is not None:
        env["VERIF_SEED"] = str(seed)
    env.update(extra_env or {})
    cmd = [sys.executable, "-B", CHECK, prop, "--tier", tier]
    if runs:
        cmd += ["--runs", str(runs)]
    t0 = time.time()
    p = subprocess.run(cmd, stdout=subprocess.PIPE, stderr=subprocess.STDOUT, env=env, cwd=boot.VERIF_DIR, timeout=3600)
    out = p.stdout.decode("utf-8", "replace")
    viol = [ln for ln in out.splitlines() if ln.startswith("VIOLATION ")]
    msg = [ln for ln in out.splitlines() if ln.startswith("violation: ")]
    # a detection only counts if the same replay is silent on the unpatched tree (otherwise the
    # check raised a false alarm of its own and the patch had nothing to do with it)
    spurious = 0
    genuine = 0
    if src != boot.anytree_src() or extra_env is not None:
        clean_env = dict(os.environ)
        clean_env.pop("ANYTREE_SRC", None)
        for ln in viol:
            path = ln.split("replay=", 1)[1].strip()
            q = subprocess.run([sys.executable, "-B", CHECK, "replay", path], stdout=subprocess.PIPE, stderr=subprocess.STDOUT,
                               env=clean_env, cwd=boot.VERIF_DIR, timeout=600)
            if q.returncode == 0:
                genuine += 1
            else:
                spurious += 1
    return {"exit": p.returncode, "violations": viol, "messages": msg, "wall": round(time.time() - t0, 1), "out": out,
            "genuine": genuine, "spurious": spurious}


def patch_cmd(args, seed):
    """./check selftest-patch <patch> [--props C01,C02]: run the named (or all) checks against a patched scratch copy."""
    props = os.environ.get("VERIF_PROPS")
    props = props.split(",") if props else sorted(PROPS)
    src = make_scratch(args.path)
    rc = 0
    try:
        for prop in props:
            r = run_check(prop, src, tier=args.tier, runs=args.runs)
            first = (r["messages"] or [""])[0][:300]
            code = r["exit"]
            if code == 1 and not r["genuine"]:
                code = 4  # violations reported, but every one of them also 'fails' on the unpatched tree
            print("%s exit=%d %.1fs genuine=%d spurious=%d %s" % (prop, code, r["wall"], r["genuine"], r["spurious"], first), flush=True)
            if r["exit"] == 2:
                print(r["out"][-3000:])
            rc = max(rc, r["exit"])
    finally:
        shutil.rmtree(src, ignore_errors=True)
    return rc


def mutants_cmd(args, seed):
    mdir = os.path.join(boot.VERIF_DIR, "mutants")
    index = json.load(open(os.path.join(mdir, "index.json")))
    only = os.environ.get("VERIF_MUTANTS")
    survivors, errors = [], []
    rows = []
    for m in index:
        if only and m["id"] not in only.split(","):
            continue
        patch = os.path.join(mdir, m["id"] + ".patch")
        try:
            src = make_scratch(patch)
        except RuntimeError as exc:
            errors.append((m["id"], str(exc)))
            print("MUTANT %-34s PATCH DOES NOT APPLY (regenerate with tools/make_mutants.py)" % m["id"], flush=True)
            continue
        try:
            caught_by = []
            missed_by = []
            for prop in m["props"]:
                if prop not in PROPS:
                    continue
                r = run_check(prop, src, tier=args.tier, runs=args.runs)
                if r["exit"] == 1 and r["violations"] and r["genuine"]:
                    caught_by.append(prop)
                elif r["exit"] == 2:
                    errors.append((m["id"], prop + ": harness error\n" + r["out"][-1500:]))
                    missed_by.append(prop + "(harness error)")
                else:
                    missed_by.append(prop)
            status = "caught" if caught_by and not missed_by else ("PARTLY" if caught_by else "SURVIVED")
            if not caught_by:
                survivors.append(m["id"])
            rows.append({"id": m["id"], "caught_by": caught_by, "missed_by": missed_by, "note": m["note"]})
            print("MUTANT %-34s %-8s caught by %s%s" % (m["id"], status, ",".join(caught_by) or "-", (" missed by " + ",".join(missed_by)) if missed_by else ""), flush=True)
        finally:
            shutil.rmtree(src, ignore_errors=True)
    out = os.path.join(boot.VERIF_DIR, "mutants", "last_result.json")
    with open(out, "w") as f:
        json.dump({"tier": args.tier, "seed": seed, "rows": rows, "survivors": survivors}, f, indent=1)
        f.write("\n")
    print("selftest-mutants: %d mutants, %d not caught by any targeted check%s" % (len(rows), len(survivors), (": " + ", ".join(survivors)) if survivors else ""))
    for mid, err in errors:
        print("ERROR %s: %s" % (mid, err))
    return 0 if not survivors and not errors else 3


def determinism_cmd(args, seed):
    """Each property: the first N runs of several seeds, executed at two worker
    counts and under two PYTHONHASHSEED values in fresh interpreters; all digests must agree."""
    n = args.runs or 96
    seeds = [seed, seed + 1, 7]
    bad = 0
    for prop in sorted(PROPS):
        for sd in seeds:
            variants = []
            for workers, hashseed in ((16, "0"), (2, "12345"), (8, "random")):
                env = dict(os.environ)
                env["PYTHONHASHSEED"] = hashseed
                env["VERIF_SEED"] = str(sd)
                p = subprocess.run([sys.executable, "-B", CHECK, "digests", prop, "--tier", args.tier, "--runs", str(n), "--workers", str(workers)],
                                   stdout=subprocess.PIPE, stderr=subprocess.PIPE, env=env, cwd=boot.VERIF_DIR, timeout=1800)
                if p.returncode != 0:
                    print("HARNESS-ERROR: digests %s failed: %s" % (prop, p.stderr.decode()[-2000:]))
                    return 2
                variants.append(json.loads(p.stdout.decode().strip().splitlines()[-1]))
            diff = [r for r in variants[0] if len(set(v.get(r) for v in variants)) != 1]
            print("determinism %s seed=%d: %d runs x 3 configurations, %d mismatches" % (prop, sd, len(variants[0]), len(diff)), flush=True)
            if diff:
                bad += 1
                print("  mismatching runs: %r" % diff[:10])
    return 2 if bad else 0


def main(what, args, seed):
    if what == "selftest-setup":
        boot.setup(0)
        import anytree  # noqa: F401
        import six  # noqa: F401

        print("setup ok: anytree from %s, python %s" % (boot.anytree_src(), sys.version.split()[0]))
        return 0
    if what == "selftest-mutants":
        return mutants_cmd(args, seed)
    if what == "selftest-patch":
        return patch_cmd(args, seed)
    if what == "selftest-determinism":
        return determinism_cmd(args, seed)
    print("unknown selftest %r" % what)
    return 2
