"""Harness self-tests (never property verdicts): setup, determinism, sensitivity."""
import sys


def main(what, args, seed):
    if what == "selftest-setup":
        from . import boot

        boot.setup(0)
        import anytree  # noqa: F401
        import six  # noqa: F401

        print("setup ok: anytree from %s, python %s" % (boot.anytree_src(), sys.version.split()[0]))
        return 0
    print("unknown selftest %r" % what)
    return 2
