"""Which machine decides which property, and with what budget."""
from .engine import register

REAL = "all of anytree runs as real code imported from /repo (ANYTREE_SRC); no stubs"
HARNESS = "harness-supplied parts are what a user supplies: node subclasses overriding the 8 hook methods"

STRUCT_RULE = (
    "runs are seeded histories (1..40 ops, 2..14+4 nodes) of parent/children assignment, children deletion and "
    "constructor calls, generated against the reference model by argument role, with hook faults (once/multi/persistent) "
    "per the run's swarm-drawn profile, plus fault-position sweeps (every hook position of every op of sampled fault-free "
    "histories).  A case = one executed operation; its signature = (unlabelled ordered-forest shape before the op with the "
    "op's arguments marked, op kind/argument flavour, fired faults (hook kind@position, exception), outcome class). "
    "distinct_nontrivial counts distinct signatures; all signatures are kept (ops with no hook event and no exception are "
    "counted separately in probes.noop_or_silent).  In half of the runs the simulated hook overrides also call the library's "
    "own hook implementation (super()); 15% of the C01/C02/C03/C16 universes use node names with formatting metacharacters."
)

ASSUME_STRUCT = [
    "only hook-raised exceptions and invalid arguments are injected (the properties' quantifier); no asynchronous exceptions, "
    "no concurrent callers; hooks that change the tree themselves only inside an envelope in which no implementation can be "
    "fooled (a node of an unrelated tree is moved or detached; C01, C02, C18 only)",
    "universes hold nodes of one mixin only, except 5% of C01's, which mix NodeMixin- and LightNodeMixin-based nodes (the "
    "library refuses to link across the two; only the invariant is judged there)",
    "seeded sampling: a clean batch is evidence, not proof",
]

register(
    "C01",
    "struct",
    quick=50000,
    thorough=1000000,
    level="fault_enumeration",
    title="links always describe one consistent forest",
    rule=STRUCT_RULE,
    assumptions=ASSUME_STRUCT,
    components={"real": REAL, "stub": "none", "harness": HARNESS},
)
register(
    "C02",
    "struct",
    quick=80000,
    thorough=2000000,
    level="exploration",
    title="attach/move/detach/children assignment have exactly the specified effect",
    rule=STRUCT_RULE,
    assumptions=ASSUME_STRUCT,
    components={"real": REAL, "stub": "none", "harness": HARNESS},
)
register(
    "C03",
    "struct",
    quick=60000,
    thorough=1000000,
    level="fault_enumeration",
    title="a refused or vetoed change leaves the forest untouched",
    rule=STRUCT_RULE,
    assumptions=ASSUME_STRUCT,
    components={"real": REAL, "stub": "none", "harness": HARNESS},
)
register(
    "C16",
    "struct",
    quick=40000,
    thorough=500000,
    level="fault_enumeration",
    title="hooks fire exactly once, in order, observing the right state",
    rule=STRUCT_RULE,
    assumptions=ASSUME_STRUCT,
    components={"real": REAL, "stub": "none", "harness": HARNESS},
)
register(
    "C04",
    "nav",
    quick=12000,
    thorough=300000,
    level="exploration",
    title="navigation attributes and sibling/ancestor helpers equal their definitions",
    rule=STRUCT_RULE
    + " After every step (successful, refused or hook-aborted) all 12 navigation attributes and left/rightsibling of every "
    "node, and commonancestors of (), one node, all ordered pairs and sampled triples/quadruples, are compared with the "
    "harness's own walks over the observed links (probes.nav_queries, probes.util_queries).",
    assumptions=ASSUME_STRUCT,
    components={"real": REAL, "stub": "none", "harness": HARNESS},
    chunk=100,
)
TWIN_RULE = (
    "twin universes driven in lock-step by the same seeded history and fault plan; a case = one executed operation or one "
    "query battery; signature = (unlabelled forest shape with op arguments marked, op kind, fired faults, outcome class) "
    "resp. (forest shape, battery size class); distinct_nontrivial counts distinct signatures. probes.queries counts the "
    "individual query results compared."
)
register(
    "C18",
    "twin",
    quick=16000,
    thorough=400000,
    level="exploration",
    title="LightNodeMixin behaves identically to NodeMixin",
    rule=TWIN_RULE,
    assumptions=ASSUME_STRUCT + ["node arguments only (non-node arguments are specified for NodeMixin alone)", "the deprecated NodeMixin-only alias `anchestors` is not compared"],
    components={"real": REAL, "stub": "none", "harness": HARNESS},
    chunk=100,
)
register(
    "C17",
    "twin",
    quick=16000,
    thorough=400000,
    level="exploration",
    title="tree operations use node identity only, never user-defined special methods",
    rule=TWIN_RULE + " The second universe's class overrides a drawn subset of the 12 comparison/hash/bool/container methods in a drawn mode (count, lie, raise).",
    assumptions=ASSUME_STRUCT + ["attribution of a special-method call to the library is by the nearest caller frame whose file lies under the anytree source root"],
    components={"real": REAL, "stub": "none", "harness": HARNESS + "; adversarial subclasses generated per run"},
    chunk=100,
)
register(
    "C20",
    "sym",
    quick=40000,
    thorough=1000000,
    level="exploration",
    title="a symlink node has its own tree position and forwards the rest to its target",
    rule=STRUCT_RULE
    + " Histories additionally interleave attribute writes/deletes through links and targets; after every step every "
    "attribute name is read on every node (probes.attr_reads) and compared with the attribute-store model; signatures of "
    "attribute ops = (op, class of the node written through, name, forest shape with the node marked).",
    assumptions=ASSUME_STRUCT + ["attribute names are data attributes (not parent/children/target, not dunder, not attributes of the link's class)"],
    components={"real": REAL, "stub": "none", "harness": HARNESS},
)
register(
    "C19",
    "snap",
    quick=30000,
    thorough=600000,
    level="exploration",
    title="pickle and deepcopy yield an independent, consistent, isomorphic tree",
    rule="runs = seeded history on the original (half of them 'lazy': never observed before the snapshot, so lazily-absent "
    "bookkeeping attributes survive), snapshot of a drawn entry node by pickle protocol 0..5 (2..5 for __slots__ classes) or "
    "deepcopy, isomorphism/identity-disjointness/consistency check, then mutations of the copy only, then of the original "
    "only, with the other side compared before/after.  A sample of pickles is also restored in a fresh interpreter with "
    "another PYTHONHASHSEED (probes.fresh_process_restores).  Signature of a snapshot case = (forest shape with the entry "
    "marked, method, classes in reach order, lazy flag); of an op = (side, shape with arguments marked, op kind, outcome).",
    assumptions=ASSUME_STRUCT + ["tree depth <= universe size (<= 18), far below Python's pickling recursion limit"],
    components={"real": REAL + "; pickle/copy from the standard library", "stub": "none", "harness": HARNESS},
)
register(
    "C08",
    "rglob",
    quick=40000,
    thorough=1000000,
    level="exploration",
    title="Resolver.glob returns exactly the nodes a wildcard pattern denotes; the shared pattern cache is unobservable",
    rule="a run = a history of 5..40 operations: glob calls by a pool of 2-5 resolvers (ignorecase x relax) sharing the "
    "class-wide pattern cache, over a pattern pool sized around the run's _MAXCACHE in {1,2,3,5,20}, interleaved with "
    "renames, re-parenting and knob changes; names contain regex metacharacters, case variants, spaces, newline, the empty "
    "string and the other class's separator.  A case = one glob call judged against the stateless reference (relaxed: set, "
    "order, duplicates; strict: same list or a justified ResolverError; agreement with get on wildcard-free paths). "
    "Signature = (pattern component shape, ignorecase, relax, outcome class, result size class, dead-end flag, "
    "sibling-unique flag); distinct_nontrivial counts distinct signatures.",
    assumptions=[
        "with an ignorecase resolver in the pool names are ASCII or use letters with a one-to-one case mapping (str.upper() and re.IGNORECASE disagree on characters such as sharp s or dotted capital I and the statement does not say which is meant)",
        "strict-mode calls only on trees whose sibling names are unique (the statement's quantifier); otherwise the call is issued relaxed",
        "every run starts with an empty pattern cache (a fresh process); cache states are then created by the run's own call history",
        "seeded sampling: a clean batch is evidence, not proof",
    ],
    components={"real": REAL, "stub": "none", "harness": "Node subclasses with other separators; the reference glob is harness code"},
)
register(
    "C14",
    "srch",
    quick=40000,
    thorough=1000000,
    level="exploration",
    title="search functions return the filtered pre-order and enforce their count bounds; cached twins agree",
    rule="a run = a history of 4..30 operations mixing structural mutations, attribute writes/deletes and queries; queries "
    "are objects kept in a pool (same start node, same filter/stop callables, same bounds; bounds drawn from {None, 0, "
    "count-1, count, count+1}) and re-issued after mutations, each to anytree.search and anytree.cachedsearch, with a drawn "
    "number of positional arguments.  A case = one query judged against the harness's reference pre-order and count rule, "
    "plus cached == uncached.  Signature = (function, forest shape with the start node marked, expected outcome class, "
    "match-count class, maxlevel, which bounds are given, first/re-issued).",
    assumptions=[
        "fastcache is not installed in this sandbox: the cache layer is a pass-through, and that pass-through behaviour is what is checked",
        "seeded sampling: a clean batch is evidence, not proof",
    ],
    components={"real": REAL, "stub": "none", "harness": HARNESS + "; filter/stop callables"},
)
EXPORT_RULE = (
    "a run = one exporter object over a seeded tree (1..12 nodes; names with quotes, backslashes, spaces, newlines, "
    "non-ASCII and collisions), a drawn stop set, filtered-out set, maxlevel in {None,0..4,n+2}, options/indent/graph/name "
    "and custom name/attribute/edge functions, iterated in 1-4 sessions of 1-3 interleaved cursors (the scheduler picks "
    "which cursor advances) with re-parenting (in 30% of the runs a raising hook may abort the move: faults_fired), renames, "
    "new nodes, nodes that are dropped and really freed, changed filter/stop sets and changed exporter settings between "
    "sessions; in a quarter of the runs iterations of the exporter or of PreOrderIter are started and abandoned half-way "
    "(fault_abandoned_iteration), and user callables may themselves traverse the tree.  Universes: Node with hook routing, "
    "Node as shipped, SymlinkNode links (a link answers `name` with its target's), or a LightNodeMixin class.  Any exception "
    "out of the exporter is a violation.  A case = one exhausted cursor judged against the admitted sub-forest.  Signature = (exporter kind, tree shape with filtered/stopped nodes marked, "
    "maxlevel, which custom functions are set, size class); distinct_nontrivial counts distinct signatures."
)
register(
    "C12",
    "export",
    quick=40000,
    thorough=1000000,
    level="exploration",
    title="DOT export declares exactly the admitted nodes and only edges between them",
    rule=EXPORT_RULE,
    assumptions=["identifier stability is required for nodes that stay alive (identifiers are keyed by id(); a dropped node's identifier is forgotten by the judge, its id() may be reused)", "seeded sampling: a clean batch is evidence, not proof"],
    components={"real": REAL, "stub": "none", "harness": "node subclasses with hook routing, filter/stop/name/attribute callables"},
)
register(
    "C13",
    "export",
    quick=40000,
    thorough=1000000,
    level="exploration",
    title="Mermaid export declares exactly the admitted nodes and only edges between them",
    rule=EXPORT_RULE + " to_file writes a real scratch file that is read back and removed.",
    assumptions=["identifier stability is required for nodes that stay alive (identifiers are keyed by id(); a dropped node's identifier is forgotten by the judge)", "seeded sampling: a clean batch is evidence, not proof"],
    components={"real": REAL, "stub": "none (to_file writes a real temporary file)", "harness": "node subclasses with hook routing, filter/stop/name/node/edge callables"},
)
