"""Which machine decides which property, and with what budget."""
from .engine import register

REAL = "all of anytree runs as real code imported from /repo (ANYTREE_SRC); no stubs"
HARNESS = "harness-supplied parts are what a user supplies: node subclasses overriding the 8 hook methods"

STRUCT_RULE = (
    "runs are seeded histories (1..40 ops, 2..14+4 nodes) of parent/children assignment, children deletion and "
    "constructor calls, generated against the reference model by argument role, with hook faults (once/multi/persistent) "
    "per the run's swarm-drawn profile, plus fault-position sweeps (every hook position of every op of sampled fault-free "
    "histories).  A case = one executed operation; its signature = (unlabelled ordered-forest shape before the op with the "
    "op's arguments marked, op kind/argument flavour, fired faults (hook kind@position, exception), outcome class). "
    "distinct_nontrivial counts distinct signatures; all signatures are kept (ops with no hook event and no exception are "
    "counted separately in probes.noop_or_silent)."
)

ASSUME_STRUCT = [
    "only hook-raised exceptions and invalid arguments are injected (the properties' quantifier); no asynchronous exceptions, "
    "no concurrent callers, no hooks that mutate the tree",
    "forests never mix NodeMixin- and LightNodeMixin-based nodes",
    "seeded sampling: a clean batch is evidence, not proof",
]

register(
    "C01",
    "struct",
    quick=60000,
    thorough=1500000,
    level="fault_enumeration",
    title="links always describe one consistent forest",
    rule=STRUCT_RULE,
    assumptions=ASSUME_STRUCT,
    components={"real": REAL, "stub": "none", "harness": HARNESS},
)
register(
    "C02",
    "struct",
    quick=80000,
    thorough=2000000,
    level="exploration",
    title="attach/move/detach/children assignment have exactly the specified effect",
    rule=STRUCT_RULE,
    assumptions=ASSUME_STRUCT,
    components={"real": REAL, "stub": "none", "harness": HARNESS},
)
register(
    "C03",
    "struct",
    quick=60000,
    thorough=1500000,
    level="fault_enumeration",
    title="a refused or vetoed change leaves the forest untouched",
    rule=STRUCT_RULE,
    assumptions=ASSUME_STRUCT,
    components={"real": REAL, "stub": "none", "harness": HARNESS},
)
register(
    "C16",
    "struct",
    quick=60000,
    thorough=1500000,
    level="fault_enumeration",
    title="hooks fire exactly once, in order, observing the right state",
    rule=STRUCT_RULE,
    assumptions=ASSUME_STRUCT,
    components={"real": REAL, "stub": "none", "harness": HARNESS},
)
