"""C20: a symlink node has its own tree position and forwards every other
attribute to its target.

Universes mix ordinary nodes with HSym (SymlinkNode) and HSymMix
(SymlinkNodeMixin) links - targets inside the same tree, in other trees, and
links to links.  Histories interleave structural calls on links and targets
(with hook faults) with attribute writes/reads through links and targets.

Oracles: the forest reference model for structure (so the link's and the
target's positions can never influence each other - whole-universe
comparison), C01's invariant, and an attribute-store model: a write through a
link lands on the final non-link target, a read through a link returns that
holder's current value, a missing attribute raises AttributeError - checked for
every node and every attribute name after every step."""
from . import struct
from .struct import Violation, brief_cfg, simplify_cfg  # noqa: F401
from .world import LINK_CLASSES

KNOWN_OPEN = set()
NAMES = ("foo", "bar", "baz", "name", "x_y", "__tag__")
# names that also exist on the link's class: a read through the link finds the class attribute first
# (excluded from the read oracle, DESIGN.md C20), but a *write* through the link must still land on the target
CLASS_LEVEL_NAMES = ("separator", "iter_path_reverse")
VALUES = (0, 1, True, False, 1.0, None, "", "a", [1], [], (1,), {"k": 1})
# ordinary words a user may pick as attribute names; every run adds two of them to NAMES (none of them is a name of
# the node classes today - a name that becomes one would stop being forwarded)
XPOOL = (
    "level", "index", "data", "value", "label", "tag", "tags", "id", "key", "weight", "kind", "state", "type", "title", "text", "count",
    "length", "order", "rank", "pos", "position", "link", "links", "next", "prev", "first", "last", "child", "node", "nodes", "tree",
    "branch", "leaf", "degree", "width", "uid", "info", "meta", "attrs", "props", "payload", "color", "visible", "enabled", "dirty",
    "cache", "flags", "owner", "source", "dest", "up", "down", "top", "parents", "is_link", "is_symlink", "subtree", "walk", "find",
)
NAV = ("path", "ancestors", "root", "depth", "is_root", "is_leaf", "siblings", "descendants", "leaves", "size", "height", "iter_path_reverse")
MISSING = ("<missing>",)


def gen_cfg(rng, prop, tier):
    cfg = struct.gen_cfg(rng, "C20", tier)
    cfg["a_rate"] = rng.choice((0.2, 0.4, 0.6))
    cfg["w"]["new"] = rng.choice((1, 2, 3))
    cfg["xnames"] = rng.sample(XPOOL, 2)
    return cfg


def names_of(cfg):
    return NAMES + tuple(cfg.get("xnames") or ())


class Store(object):
    """Attribute-store reference model."""

    def __init__(self, cfg):
        self.cls = list(cfg["classes"])
        self.names = names_of(cfg)
        self.xl = None
        self.target = list(cfg["targets"])
        self.attrs = []
        for i, c in enumerate(self.cls):
            self.attrs.append({} if c in LINK_CLASSES else {"name": "n%d" % i})

    def holder(self, i):
        while self.cls[i] in LINK_CLASSES:
            i = self.target[i]
        return i

    def add(self, op, idx):
        cls = op["cls"]
        self.cls.append(cls)
        self.target.append(op.get("target"))
        self.attrs.append({})
        attrs = op.get("attrs") or {}
        if cls in LINK_CLASSES:
            if cls in ("HSym", "PSym"):
                h = self.holder(idx)
                self.attrs[h].update(attrs)
        else:
            self.attrs[idx].update(attrs)
            self.attrs[idx]["name"] = op["name"]

    def reaches(self, i, j):
        """Does following targets from i pass through j?"""
        seen = 0
        while self.cls[i] in LINK_CLASSES and seen <= len(self.cls):
            i = self.target[i]
            seen += 1
            if i == j:
                return True
        return i == j

    def expected(self, i, k):
        return self.attrs[self.holder(i)].get(k, MISSING)


def pre_gen_factory(store):
    def pre_gen(rng, model, cfg, step):
        NAMES = names_of(cfg)  # noqa: N806 - shadows the module constant on purpose
        n = len(model)
        r = rng.random()
        if r < cfg["a_rate"]:
            i = rng.randrange(n)
            links = [j for j in range(n) if store.cls[j] in LINK_CLASSES]
            if links and rng.random() < 0.6:
                i = rng.choice(links)
            k = rng.choice(NAMES)
            if rng.random() < 0.15 and store.cls[i] not in LINK_CLASSES and k in store.attrs[i] and k != "name":
                return {"op": "delattr", "n": i, "k": k}
            v = rng.choice((step, "s%d" % step)) if rng.random() < 0.4 else rng.choice(VALUES)
            if isinstance(v, tuple):
                v = list(v)  # JSON has no tuples; keep replays faithful
            elif isinstance(v, (list, dict)):
                v = type(v)(v)  # a fresh object per operation, as in a replay
            if links and rng.random() < 0.08:
                return {"op": "setattr", "n": rng.choice(links), "k": rng.choice(CLASS_LEVEL_NAMES), "v": "w%d" % step}
            if "HNodeRO" in store.cls and rng.random() < 0.15:
                return {"op": "setattr", "n": rng.choice(links) if links else i, "k": "ro", "v": step}
            return {"op": "setattr", "n": i, "k": k, "v": v}
        if 0.88 < r <= 0.93:
            # a link (outside the universe's forest) to a node of the other mixin: a tree node like any other
            return {"op": "xlink", "n": 0, "k": rng.choice(NAMES), "v": rng.choice((step, "x%d" % step, None, 0))}
        links_now = [j for j in range(n) if store.cls[j] in LINK_CLASSES]
        if links_now and r > 0.93:
            # re-point an existing link (target is the link's own attribute); never onto itself or onto a
            # link that reaches it
            j = rng.choice(links_now)
            cands = [t for t in range(n) if t != j and not store.reaches(t, j)]
            if cands:
                return {"op": "retarget", "n": j, "t": rng.choice(cands)}
        if r < cfg["a_rate"] + 0.12 and n < len(cfg["classes"]) + 4:
            # a link constructed with keyword attributes, often to another link
            links = [j for j in range(n) if store.cls[j] in LINK_CLASSES]
            t = rng.choice(links) if links and rng.random() < 0.6 else rng.randrange(n)
            op = {"op": "new", "cls": "PSym" if "PSym" in cfg["menu"] else "HSym", "name": "n%d" % n, "target": t, "p": rng.choice((None, rng.randrange(n)))}
            ks = rng.sample(NAMES, rng.randint(0, 2))
            if ks:
                op["attrs"] = {k: "c%d" % step for k in ks}
            return op
        return None

    return pre_gen


def check_nav(step, world, res, op):
    """The link's position is its own: navigation attributes of links, of their targets and of everybody else are
    what the links of the forest say.  Only a few (node, attribute) pairs are read each time, drawn from the
    operation record: a checker that re-reads everything after every step would keep any memo fresh."""
    import random

    from .queries import lib_nav_one, ref_nav

    snap = world.snapshot()
    ref = ref_nav(snap)
    r = random.Random(struct.stable_hash((step, repr(sorted(op.items(), key=repr)))))
    n = len(snap)
    for _ in range(r.choice((0, 1, 2, 3, 2 * n))):
        i = r.randrange(n)
        k = r.choice(NAV)
        try:
            got = lib_nav_one(world, world.nodes[i], k)
        except Exception as exc:  # noqa: BLE001  (RecursionError included: these universes are a dozen nodes deep at most)
            raise Violation("C20", "position", step, "position:%s:raises:%s" % (k, type(exc).__name__),
                            "after step %d %s: reading %s of node %d (%s) raised %s: %s" % (step, op, k, i, world.cls[i], type(exc).__name__, str(exc)[:200]))
        res.bump("nav_reads")
        if got != ref[i][k]:
            raise Violation("C20", "position", step, "position:%s:%s" % (k, world.cls[i] if world.cls[i] in LINK_CLASSES else "node"),
                            "after step %d %s: %s of node %d (%s) is %r, the links say %r (forest %r)" % (step, op, k, i, world.cls[i], got, ref[i][k], snap))


def check_reads(step, world, store, res, op):
    nodes = world.nodes
    check_nav(step, world, res, op)
    for i in range(len(nodes)):
        node = nodes[i]
        for k in store.names:
            try:
                got = getattr(node, k)
            except AttributeError:
                got = MISSING
            except Exception as exc:  # noqa: BLE001
                raise Violation("C20", "forward", step, "forward:raises:" + type(exc).__name__,
                                "after step %d %s: reading %r on node %d raised %s: %s" % (step, op, k, i, type(exc).__name__, str(exc)[:200]))
            want = store.expected(i, k)
            res.bump("attr_reads")
            # the very object that was stored must come back (an equal value of another type, or an
            # equal copy, means the write did not go where the read looks)
            if got is not want and not (type(got) is type(want) and got == want and not isinstance(want, (list, dict))):
                via = "link %d (-> holder %d)" % (i, store.holder(i)) if store.cls[i] in LINK_CLASSES else "node %d" % i
                raise Violation(
                    "C20",
                    "forward",
                    step,
                    "forward:%s:%s" % ("link" if store.cls[i] in LINK_CLASSES else "node", "missing" if want is MISSING else "value"),
                    "after step %d %s: reading %r through %s gives %r, the target holds %r"
                    % (step, op, k, via, "AttributeError" if got is MISSING else got, "nothing (AttributeError expected)" if want is MISSING else want),
                )


def run(cfg, ops=None, rng=None):
    store = Store(cfg)

    def handle(step, world, model, res, op):
        i, k = op["n"], op.get("k")
        node = world.nodes[i]
        if op["op"] == "xlink":
            try:
                if store.xl is None:
                    from .world import HLightDict, make_node

                    t = HLightDict("ext")
                    store.xl = (make_node("PSym" if "PSym" in cfg["menu"] else "HSym", None, target=t), t, {"name": "ext"})
                link, t, have = store.xl
                setattr(link, k, op["v"])
                have[k] = op["v"]
                bad = [a for a in sorted(have) if getattr(link, a) is not have[a] or getattr(t, a) is not have[a]]
                own = (link.parent, link.children, t.parent, t.children)
            except Exception as exc:  # noqa: BLE001
                raise Violation("C20", "forward", step, "forward:light-target:" + type(exc).__name__,
                                "step %d %s: a link to a LightNodeMixin node raised %s: %s" % (step, op, type(exc).__name__, exc))
            res.bump("links_to_light_nodes_ops")
            if bad or own != (None, (), None, ()):
                raise Violation("C20", "forward", step, "forward:light-target", "step %d %s: through a link to a LightNodeMixin node: attributes %r differ, positions %r" % (step, op, bad, own))
            return
        if op["op"] == "retarget":
            j, t = op["n"], op["t"]
            if j < len(store.cls) and t < len(store.cls) and store.cls[j] in LINK_CLASSES and t != j and not store.reaches(t, j):
                world.nodes[j].target = world.nodes[t]
                store.target[j] = t
                res.bump("retargets")
            check_reads(step, world, store, res, op)
            return
        if op["op"] == "setattr" and k == "ro" and store.cls[store.holder(i)] == "HNodeRO":
            # the target refuses the assignment (read-only property): the error must come through, and the link
            # must not keep the value for itself
            try:
                setattr(node, k, op["v"])
                refused = False
            except AttributeError:
                refused = True
            res.bump("refused_writes")
            kept = world.nodes[i].__dict__.get("ro", MISSING) if store.cls[i] in LINK_CLASSES else MISSING
            if not refused or kept is not MISSING or getattr(node, "ro") != 7:
                raise Violation(
                    "C20", "forward-write", step, "forward-write:refused",
                    "step %d %s: the target's read-only property refuses the value; the assignment %s, the link %s, reading gives %r"
                    % (step, op, "was refused" if refused else "returned normally", "kept %r for itself" % (kept,) if kept is not MISSING else "kept nothing",
                       getattr(node, "ro")),
                )
            return
        if op["op"] == "setattr" and k in CLASS_LEVEL_NAMES:
            try:
                setattr(node, k, op["v"])
            except Exception as exc:  # noqa: BLE001
                raise Violation("C20", "forward-write", step, "forward-write:raises:" + type(exc).__name__,
                                "step %d %s: assigning through link %d raised %s: %s" % (step, op, i, type(exc).__name__, exc))
            h = store.holder(i)
            res.bump("class_level_writes")
            got = world.nodes[h].__dict__.get(k, MISSING)
            if got is not op["v"]:
                raise Violation(
                    "C20", "forward-write", step, "forward-write:classname",
                    "step %d %s: the value assigned through link %d is not stored on its target %d (target holds %r)" % (step, op, i, h, got),
                )
            mine = world.nodes[i].__dict__.get(k, MISSING) if store.cls[i] in LINK_CLASSES else MISSING
            if mine is not MISSING:
                raise Violation("C20", "forward-write", step, "forward-write:kept", "step %d %s: the link kept %r=%r for itself" % (step, op, k, mine))
            del world.nodes[h].__dict__[k]
            return
        if op["op"] == "setattr":
            try:
                setattr(node, k, op["v"])
            except Exception as exc:  # noqa: BLE001
                raise Violation("C20", "forward-write", step, "forward-write:raises:" + type(exc).__name__,
                                "step %d %s: assigning an ordinary attribute %s raised %s: %s"
                                % (step, op, "through link %d" % i if store.cls[i] in LINK_CLASSES else "on node %d" % i, type(exc).__name__, exc))
            store.attrs[store.holder(i)][k] = op["v"]
            res.bump("attr_writes_via_link" if store.cls[i] in LINK_CLASSES else "attr_writes_direct")
        else:
            if store.cls[i] not in LINK_CLASSES and k in store.attrs[i]:
                delattr(node, k)
                del store.attrs[i][k]
                res.bump("attr_deletes")
        res.sigs.add(struct.stable_hash(("attr", op["op"], store.cls[i], k, struct.shape_sig(model, {i: "N"}))))
        check_reads(step, world, store, res, op)

    def extra(step, world, model, res, op, status, exc):
        if op["op"] == "new":
            store.add(op, len(store.cls))
            if store.cls[-1] in LINK_CLASSES:
                res.bump("links_to_links" if store.cls[store.target[-1]] in LINK_CLASSES else "links_to_nodes")
        check_reads(step, world, store, res, op)

    return struct.run(cfg, ops=ops, rng=rng, extra=extra, pre_gen=pre_gen_factory(store) if ops is None else None, handle=handle)


def simplify_op(op):
    if op["op"] in ("setattr", "delattr"):
        return
    for alt in struct.simplify_op(op):
        yield alt
