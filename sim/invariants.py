"""C01's invariant, evaluated over the closure of the universe under
.parent/.children using identity only and nothing but the public API.

Used as the oracle of C01 and as a guard by every other machine before it
issues library queries on a forest (a corrupt forest may make them spin)."""


def check_forest(world, limit=None):
    """Return a list of (clause, detail) violations; empty if consistent.

    clauses: foreign, child-parent, parent-child, duplicate,
             cycle, root-attr
    """
    nodes = world.nodes
    index = world.index
    out = []
    n_nodes = len(nodes)
    kids = []
    pars = []
    for i in range(n_nodes):
        n = nodes[i]
        kids.append(tuple(n.children))
        pars.append(n.parent)
    # closure: every object reachable must be a universe node
    for i in range(n_nodes):
        p = pars[i]
        if p is not None and not isinstance(index(p), int):
            out.append(("foreign", "node %d: parent %r is not a universe node" % (i, index(p))))
        for c in kids[i]:
            if not isinstance(index(c), int):
                out.append(("foreign", "node %d: child %r is not a universe node" % (i, index(c))))
    if out:
        return out
    for i in range(n_nodes):
        n = nodes[i]
        seen = set()
        for c in kids[i]:
            ci = index(c)
            # (i) every listed child points back
            if pars[ci] is not n:
                out.append(("child-parent", "%d lists %d as child but %d.parent is %r" % (i, ci, ci, index(pars[ci]))))
            # (iii) no identity-duplicate
            if ci in seen:
                out.append(("duplicate", "%d lists %d more than once" % (i, ci)))
            seen.add(ci)
        # (ii) a node with a parent appears exactly once in that parent's children
        p = pars[i]
        if p is not None:
            pi = index(p)
            cnt = 0
            for c in kids[pi]:
                if c is n:
                    cnt += 1
            if cnt != 1:
                out.append(("parent-child", "%d.parent is %d but appears %d times in its children" % (i, pi, cnt)))
    # (iv) parent chains end (linear: colour nodes while walking up)
    state = [0] * n_nodes  # 0 unknown, 1 on the current walk, 2 known to reach a root
    for i in range(n_nodes):
        if state[i]:
            continue
        walk = []
        k = i
        while True:
            if state[k] == 2:
                break
            if state[k] == 1:
                out.append(("cycle", "parent chain from %d does not end" % i))
                break
            state[k] = 1
            walk.append(k)
            p = pars[k]
            if p is None:
                break
            k = index(p)
        for k in walk:
            state[k] = 2
    if out:
        return out
    # (v) a detached node is the root of its own tree (library attributes; safe now)
    step = 1 if n_nodes <= 64 else n_nodes // 48
    for i in range(0, n_nodes, step):
        n = nodes[i]
        if pars[i] is None:
            if not n.is_root or n.root is not n:
                out.append(("root-attr", "%d has no parent but is_root=%r root=%r" % (i, n.is_root, index(n.root))))
        else:
            if n.is_root:
                out.append(("root-attr", "%d has a parent but is_root=%r" % (i, n.is_root)))
    return out
