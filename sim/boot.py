"""Locate and import the anytree under test.

anytree is never installed: it is imported from /repo's working tree (or from
ANYTREE_SRC, used by the sensitivity self-test on scratch copies).  The
ANYTREE_ASSERTIONS switch is read once at import (anytree/config.py), so it has
to be put into the environment before the first import in every process.
"""
import os
import sys

VERIF_DIR = os.path.dirname(os.path.dirname(os.path.abspath(__file__)))


def anytree_src():
    return os.path.abspath(os.environ.get("ANYTREE_SRC", "/repo"))


def setup(assertions):
    """Make `import anytree` resolve to the tree under test. Idempotent per process."""
    want = "1" if assertions else "0"
    if "anytree" in sys.modules:
        have = "1" if sys.modules["anytree.config"].ASSERTIONS else "0"
        if have != want:
            raise RuntimeError("anytree already imported with ANYTREE_ASSERTIONS=%s" % have)
        return
    os.environ["ANYTREE_ASSERTIONS"] = want
    sys.dont_write_bytecode = True
    src = anytree_src()
    if VERIF_DIR not in sys.path:
        sys.path.insert(0, VERIF_DIR)
    # the source under test goes first so that no installed copy can shadow it
    sys.path.insert(0, src)
    import anytree  # noqa: F401

    real = os.path.realpath(anytree.__file__)
    if not real.startswith(os.path.realpath(src) + os.sep):
        raise RuntimeError("anytree imported from %s, not from %s" % (real, src))
    import anytree.config

    if bool(anytree.config.ASSERTIONS) != bool(assertions):
        raise RuntimeError("ANYTREE_ASSERTIONS not honoured")
