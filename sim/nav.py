"""C04: navigation attributes and sibling/ancestor helpers equal their
definitions at every point of a mutation history (including right after refused
and hook-aborted calls).  Built on the structural machine: after every step
every node of the universe is queried and compared with values the harness
computes by its own walks over the observed parent/children links."""
import random

from anytree import util

from . import struct
from .queries import NAV_ATTRS, lib_nav_one, ref_commonancestors, ref_nav, ref_sibling
from .struct import Violation, brief_cfg, simplify_cfg, simplify_op  # noqa: F401
from .world import OpGuard, Watchdog

KNOWN_OPEN = set()


def gen_cfg(rng, prop, tier):
    cfg = struct.gen_cfg(rng, "C04", tier)
    cfg["qseed"] = rng.randrange(1 << 30)
    # full observation after every step fills every memo a broken implementation may keep and so can
    # hide an incomplete invalidation; half of the runs therefore read only a random part each time
    cfg["part"] = rng.choice((None, None, 0.1, 0.3, 0.6))
    return cfg


def battery(step, world, model, res, op, status, exc):
    snap = world.snapshot()
    ref = ref_nav(snap)
    nodes = world.nodes
    n = len(nodes)
    ix = world.index
    part = res.cfg_part
    prng = random.Random(res.cfg_qseed * 31 + step)
    for i in range(n):
        node = nodes[i]
        want = ref[i]
        for attr in NAV_ATTRS:
            if part is not None and prng.random() > part:
                continue
            got = lib_nav_one(world, node, attr)
            res.bump("nav_queries")
            if got != want[attr]:
                raise Violation(
                    "C04",
                    attr,
                    step,
                    "nav:" + attr,
                    "after step %d %s: node %d .%s is %r, definition gives %r (links: %r)" % (step, op, i, attr, got, want[attr], snap),
                )
        for name, fn, delta in (("leftsibling", util.leftsibling, -1), ("rightsibling", util.rightsibling, 1)):
            if part is not None and prng.random() > part:
                continue
            got = ix(fn(node))
            want_s = ref_sibling(snap, i, delta)
            res.bump("util_queries")
            if got != want_s:
                raise Violation(
                    "C04",
                    name,
                    step,
                    "util:" + name,
                    "after step %d %s: %s(node %d) is %r, definition gives %r (links: %r)" % (step, op, name, i, got, want_s, snap),
                )
    # commonancestors: zero, one, all pairs, sampled triples/quadruples
    rng = random.Random(res.cfg_qseed + step)
    groups = [(), (rng.randrange(n),)]
    if n <= 16:
        for i in range(n):
            for j in range(n):
                groups.append((i, j))
    else:
        groups.extend((rng.randrange(n), rng.randrange(n)) for _ in range(200))
    for _ in range(n):
        groups.append(tuple(rng.randrange(n) for _ in range(rng.choice((3, 3, 4)))))
    for g in groups:
        if part is not None and prng.random() > part:
            continue
        got = tuple(ix(x) for x in util.commonancestors(*[nodes[k] for k in g]))
        res.bump("util_queries")
        want_c = ref_commonancestors(snap, g)
        if got != want_c:
            raise Violation(
                "C04",
                "commonancestors",
                step,
                "util:commonancestors",
                "after step %d %s: commonancestors%r is %r, definition gives %r (links: %r)" % (step, op, g, got, want_c, snap),
            )
    res.bump("batteries")


def run(cfg, ops=None, rng=None):
    def extra(step, world, model, res, op, status, exc):
        res.cfg_qseed = cfg.get("qseed", 0)
        res.cfg_part = cfg.get("part")
        try:
            with OpGuard(5.0 + 0.05 * len(world.nodes), 900):
                battery(step, world, model, res, op, status, exc)
        except Watchdog as wd:
            raise Violation("C04", "hang", step, "nav:hang", "after step %d %s: a navigation query does not terminate (%s)" % (step, op, wd))
        except Violation:
            raise
        except (RecursionError, MemoryError):
            res.bump("batteries_ended_by_stack_or_memory_exhaustion")  # (a limit of Python on deep trees, not a property)
        except Exception as e:  # noqa: BLE001
            # every value is defined for every node of a consistent forest: no query has a reason to raise
            raise Violation("C04", "raises", step, "nav:raises:" + type(e).__name__, "after step %d %s: a navigation query raised %s: %s" % (step, op, type(e).__name__, e))

    res = struct.run(cfg, ops=ops, rng=rng, extra=extra)
    if res.violation is None and not cfg.get("big") and getattr(res, "world", None) is not None and res.steps % 2 == 0:
        from .queries import lifetime_probe

        world, res.world = res.world, None
        bad = lifetime_probe(world)
        res.bump("lifetime_probes")
        if bad:
            res.violation = Violation("C04", "lifetime", len(res.ops), "nav:lifetime", "at the end of the run: " + bad)
    return res
