"""The structural machine: seeded histories of parent/children assignments,
children deletions and constructor calls with hook faults, executed on real
node objects in lock-step with the reference model.  Oracles for C01, C02,
C03, C16 (and the query battery for C04 / the twin comparison for C18) plug in
here.

A run is a pure function of (cfg, ops): in search mode the ops are drawn from
the run's PRNG against the model state and recorded; in replay/shrink mode the
recorded list is re-executed through the same code path without any PRNG.
"""
import hashlib
import warnings

from . import invariants
from .model import ForestModel, children_truthy, is_nn
from .ops import (
    ALL_HOOKS,
    FAMILY,
    LINK_CLASSES,
    PRE_HOOKS,
    exec_op,
    gen_children_seq,
    gen_fault,
    gen_parent_target,
    wchoice,
)
from .world import PARENT_HOOKS, World, Watchdog

NODE_MENUS = (
    ("HNode",),
    ("HAny",),
    ("HMix",),
    ("HNode", "HAny", "HMix"),
    ("HNode", "HSym"),
    ("HNode", "HMix", "HSym", "HSymMix"),
    ("HNodeEq",),
    ("HNodeEq", "HNode"),
    ("HNodeBag",),
    ("HNodeBag", "HNode"),
    ("HNodeNo",),
    ("HNodeNo", "HNodeBag"),
    ("HNodeInst",),
    ("HNodeInst", "HNode"),
    ("HNodeUnhash",),
    ("HNodeUnhash", "HNode"),
    ("HMixWords",),
    ("HNodeWords", "HNode", "HSym"),
    ("HNodeWords",),
    ("HMixWords", "HNode"),
)
# only where navigation attributes are not the subject (the class re-uses the name `path` for itself)
NODE_MENUS_STRUCT_ONLY = (("HMixPath",), ("HMixPath", "HMix"))
LIGHT_MENUS = (
    ("HLight",),
    ("HLightDict",),
    ("HLight", "HLightDict"),
    ("HLightEq",),
    ("HLightEq", "HLight"),
    ("HLightBag",),
    ("HLightBag", "HLightSub"),
    ("HLightNo",),
    ("HLightNo", "HLight"),
    ("HLightWords",),
)
EXC_EXCEPTION = ("SimFault", "SimRuntime", "SimAssert", "SimLookup", "SimStop", "SimTreeError")
EXC_ALL = EXC_EXCEPTION + ("SimCancel",)
STRUCT_OPS = ("parent", "children", "del", "new")


class Violation(Exception):
    def __init__(self, prop, clause, step, signature, message):
        Exception.__init__(self, message)
        self.prop = prop
        self.clause = clause
        self.step = step
        self.signature = signature
        self.message = message

    def as_dict(self):
        return {
            "property": self.prop,
            "clause": self.clause,
            "step": self.step,
            "signature": self.signature,
            "message": self.message,
        }


class Result(object):
    def __init__(self):
        self.violation = None
        self.ops = []
        self.digest = None
        self.sigs = set()
        self.stats = {}
        self.known = {}
        self.states = set()
        self.steps = 0
        self.hooks_per_op = []
        self.hook_kinds = []

    def bump(self, key, n=1):
        self.stats[key] = self.stats.get(key, 0) + n


# -- configuration -----------------------------------------------------------------


# ordinary words used as names of keyword attributes in constructor calls
KW_WORDS = ("index", "level", "key", "pos", "position", "order", "sort", "reverse", "strict", "deep", "unique", "check", "validate", "copy",
            "before", "after", "first", "last", "id", "type", "kind", "data", "value", "weight", "label", "encoding", "sort_keys", "follow_symlinks")


# names whose repr() carries formatting metacharacters: error messages are built from reprs
ODD_NAMES = ("100%", "%s", "%d%%", "{0}", "{}", "{x}", "a%(b)s", "%", "{", "}}", "%r %r", "n\\n")


def node_name(cfg, i):
    if cfg.get("odd_names"):
        return ODD_NAMES[i % len(ODD_NAMES)]
    return "n%d" % i


def gen_cfg(rng, prop, tier, allow_big=True):
    """Swarm-style per-run configuration (plain data)."""
    thorough = tier == "thorough"
    if prop == "C20":
        family = "node"
        menu = rng.choice((("HNode", "HSym"), ("HNode", "HAny", "HSym", "HSymMix"), ("HAny", "HSym"), ("HNode", "HSym", "HSymProp"), ("HNodeRO", "HSym"), ("HNodeRO", "HNode", "HSym"),
                           ("PNode", "PSym"), ("PAny", "PNode", "PSym"),  # (these two: the library's classes exactly as shipped)
                           ("HNodeNo", "HSym"), ("HNodeBag", "HNode", "HSym"), ("HNodeUnhash", "HSym")))
    elif prop == "C18":
        family = "node"
        menu = ("HMix",)
    else:
        family = "light" if rng.random() < 0.35 else "node"
        menu = rng.choice(LIGHT_MENUS if family == "light" else NODE_MENUS)
        if family == "node" and prop in ("C01", "C02", "C03", "C16") and allow_big and rng.random() < 0.04:
            menu = rng.choice(NODE_MENUS_STRUCT_ONLY)
        if prop == "C02" and family == "node" and rng.random() < 0.15:
            # the library's classes exactly as shipped (no hook mixin in the MRO)
            menu = rng.choice((("PNode",), ("PAny",), ("PNode", "PSym"), ("PNode", "PAny")))
    n_nodes = rng.randint(2, 14 if thorough else 8)
    if rng.random() < 0.1:
        length = rng.randint(13, 40)
    else:
        length = rng.randint(1, 12)
    big = allow_big and prop in ("C01", "C02", "C03", "C04", "C16") and rng.random() < (0.02 if thorough else 0.01)
    deep = allow_big and prop in ("C01", "C02", "C03") and rng.random() < (0.001 if thorough else 0.0005)
    if big:
        # a few large universes: wide stars, deep chains, big random forests
        n_nodes = rng.randint(40, 150 if prop == "C04" else 300)
        length = rng.randint(1, 5)
    if deep:
        # one chain deeper than Python's recursion limit: ancestor walks must not be cut short
        big = True
        n_nodes = (rng.randint(992, 1008) if rng.random() < 0.5 else rng.randint(1030, 1250)) + 6
        length = rng.randint(2, 5)
    mixed = prop == "C01" and not big and rng.random() < 0.05
    if mixed:
        # nodes of both mixins in one universe: attaching across the two is refused by the library (with an
        # AttributeError, after the detach step) - whatever it does, the forest must stay consistent
        menu = tuple(rng.choice(NODE_MENUS)) + tuple(rng.choice(LIGHT_MENUS))
    classes = []
    targets = []
    for i in range(n_nodes):
        c = rng.choice(menu)
        if c in LINK_CLASSES and i == 0:
            c = "HNode"
        classes.append(c)
        targets.append(rng.randrange(i) if c in LINK_CLASSES else None)
    cfg = {
        "prop": prop,
        "family": family,
        "menu": list(menu),
        "classes": classes,
        "targets": targets,
        # deep: one chain, plus three separate parent/child pairs that can be moved below its far end
        "init_parents": ([None] + list(range(n_nodes - 7)) + [None, n_nodes - 6, None, n_nodes - 4, None, n_nodes - 2])
        if deep else ([None] * n_nodes if mixed else gen_init_forest(rng, n_nodes, big)),
        "big": big,
        "deep": deep,
        "mixed": mixed,
        "L": length,
        "obs": 1,
        "observe_hooks": False,
    }
    # op mix: some kinds switched off entirely in a run so the others dominate
    w = {"parent": rng.choice((0, 1, 3, 5)), "children": rng.choice((0, 1, 3, 5)), "del": rng.choice((0, 1, 1, 2)),
         "new": rng.choice((0, 0, 1, 2))}
    if w["parent"] + w["children"] + w["del"] == 0:
        w["parent"] = w["children"] = 1
    cfg["w"] = w
    cfg["allow_nn"] = family == "node" and rng.random() < 0.6 and not mixed  # (LightNodeMixin does not vet its arguments)
    if prop == "C01":
        cfg["acts"] = rng.random() < 0.25  # hooks that move an unrelated node while the call is in flight
        cfg["profile"] = wchoice(rng, (("none", 15), ("once", 40), ("multi", 20), ("persist", 25)))
        cfg["hooks"] = list(ALL_HOOKS)
        cfg["excs"] = list(EXC_ALL)
        cfg["obs"] = rng.choice((1, 1, 1, 2, 3, 0))  # 0: only at the end
    elif prop == "C02":
        # mostly fault-free histories; in some runs a hook aborts an *earlier* call (a faulted call itself is
        # not judged here, C03/C16 do that) - whatever it leaves behind, later calls must still do exactly
        # what is specified and be refused only if they must
        cfg["profile"] = wchoice(rng, (("none", 70), ("once", 30)))
        cfg["hooks"] = list(ALL_HOOKS)
        cfg["excs"] = list(EXC_EXCEPTION)
    elif prop == "C03":
        cfg["profile"] = wchoice(rng, (("none", 15), ("once", 50), ("multi", 15), ("persist", 20)))
        cfg["hooks"] = list(PRE_HOOKS)
        cfg["excs"] = list(EXC_EXCEPTION)
    elif prop == "C16":
        cfg["profile"] = wchoice(rng, (("none", 35), ("once", 40), ("multi", 10), ("persist", 15)))
        cfg["hooks"] = list(ALL_HOOKS)
        cfg["excs"] = list(EXC_ALL)
        cfg["observe_hooks"] = rng.random() < 0.8
    elif prop == "C18":
        cfg["profile"] = wchoice(rng, (("none", 30), ("once", 35), ("multi", 15), ("persist", 20)))
        cfg["hooks"] = list(ALL_HOOKS)
        cfg["excs"] = list(EXC_ALL)
        cfg["allow_nn"] = False
        cfg["observe_hooks"] = rng.random() < 0.5
    elif prop == "C20":
        cfg["profile"] = wchoice(rng, (("none", 50), ("once", 35), ("persist", 15)))
        cfg["hooks"] = list(ALL_HOOKS)
        cfg["excs"] = list(EXC_ALL)
    elif prop == "C04":
        cfg["profile"] = wchoice(rng, (("none", 60), ("once", 30), ("persist", 10)))
        cfg["hooks"] = list(ALL_HOOKS)
        cfg["excs"] = list(EXC_EXCEPTION)
    else:
        cfg["profile"] = "none"
    if prop in ("C01", "C02", "C03", "C20") and rng.random() < 0.3:
        cfg["observe_hooks"] = True  # hooks that look at the parent's children while the update is in flight
    if prop in ("C01", "C02", "C04", "C16", "C18") and rng.random() < 0.3:
        cfg["hook_reads"] = rng.sample(("size", "height", "path", "root", "children", "depth", "leaves", "siblings", "descendants"), rng.randint(1, 3))
    if rng.random() < 0.25:
        cfg["hook_ret"] = rng.choice((False, 0, True, "veto", 1))
    if big and cfg["profile"] == "persist":
        # the unbounded rollback recursion (finding C03-4) re-attaches every child at each of its ~300 levels:
        # on a node with hundreds of children that is minutes of work, not a hang
        cfg["profile"] = "once"
    if big:
        # recursive attributes (size, height, descendants) read from inside a hook need a stack proportional
        # to the depth; that is a limit of Python/anytree, not a property
        cfg.pop("hook_reads", None)
    cfg["p_fault"] = rng.choice((0.2, 0.35, 0.5, 1.0)) if cfg["profile"] != "none" else 0.0
    cfg["persist_run"] = cfg["profile"] == "persist" and rng.random() < 0.4
    if cfg["persist_run"]:
        hooks = cfg["hooks"]
        nodes = None if rng.random() < 0.4 else sorted(rng.sample(range(n_nodes), rng.randint(1, n_nodes)))
        cfg["persist_spec"] = [[rng.choice(hooks), nodes, rng.choice(cfg["excs"])]]
    cfg["hook_super"] = rng.random() < 0.5  # the users' hook overrides also call the library's implementation
    cfg["odd_names"] = prop in ("C01", "C02", "C03", "C16") and rng.random() < 0.15
    cfg["warn_error"] = prop in ("C01", "C03") and rng.random() < 0.1
    return cfg


def gen_init_forest(rng, n, big=False):
    """Initial shape of the universe: histories start from isolated roots in 40%
    of the runs and from a forest of a drawn style otherwise (deep chains, stars,
    binary trees, random forests), so that depth >= 3 states are common even in
    short histories."""
    style = wchoice(rng, (("flat", 40), ("random", 30), ("chain", 10), ("star", 5), ("binary", 10), ("two-chains", 5)))
    if big:
        style = rng.choice(("random", "chain", "star", "binary", "two-chains"))
        if style in ("chain", "two-chains") and n > 120:
            style = "random"  # keep depth well below Python's recursion limit (recursive attributes)
    par = [None] * n
    if style == "flat":
        return par
    for i in range(1, n):
        if style == "random":
            par[i] = rng.randrange(i) if rng.random() < 0.8 else None
        elif style == "chain":
            par[i] = i - 1 if rng.random() < 0.9 else None
        elif style == "star":
            par[i] = 0
        elif style == "binary":
            par[i] = (i - 1) // 2
        else:
            par[i] = i - 2 if i >= 2 else None
    return par


# -- operation generation ---------------------------------------------------------------


def expect_of(model, op):
    kind = op["op"]
    if kind == "parent":
        return model.expect_parent(op["n"], op["p"])
    if kind == "children":
        return model.expect_children(op["n"], op["xs"], op.get("c", "list"))
    if kind == "del":
        return model.expect_delchildren(op["n"])
    if kind == "new":
        return expect_new(model, op)
    raise ValueError(kind)


def expect_new(model, op):
    """Constructor = create a root, then the parent assignment, then - iff the
    children argument is truthy - the children assignment.  The expectation is
    evaluated on a scratch copy because the node does not exist in the model yet."""
    m = model.copy()
    n = m.add(FAMILY[op["cls"]])
    e1 = m.expect_parent(n, op.get("p"))
    if e1.exc is not None:
        e1.phase_marks = (0,)
        return e1
    m.apply_parent(n, op.get("p"))
    xs = op.get("xs")
    if not children_truthy(xs, op.get("c", "list")):
        return e1
    e2 = m.expect_children(n, xs, op.get("c", "list"))
    e2.trace = e1.trace + e2.trace
    e2.phase_marks = (len(e1.trace),)
    return e2


def apply_op(model, op, newidx=None):
    kind = op["op"]
    if kind == "new":
        op = dict(op, _n=newidx)
    if kind == "parent":
        model.apply_parent(op["n"], op["p"])
    elif kind == "children":
        model.apply_children(op["n"], op["xs"])
    elif kind == "del":
        model.apply_delchildren(op["n"])
    elif kind == "new":
        # the node itself was added to the model when the real object appeared
        n = op["_n"]
        if op.get("p") is not None:
            model.apply_parent(n, op["p"])
        if children_truthy(op.get("xs"), op.get("c", "list")):
            model.apply_children(n, op["xs"])


def gen_deep_op(rng, model, cfg, step):
    """Operations for the one-deep-chain universes: moves between the two ends of the chain."""
    n = len(cfg["classes"]) - 6  # the chain
    top = lambda: rng.randrange(0, 12)  # noqa: E731
    bottom = lambda: rng.randrange(n - 12, n)  # noqa: E731
    r = rng.random()
    if r < 0.25:
        # a node that has a parent elsewhere moves below the far end of the chain
        op = {"op": "parent", "n": n + rng.choice((1, 3, 5)), "p": rng.randrange(n - 3, n)}
    elif r < 0.35:
        op = {"op": "parent", "n": top(), "p": bottom()}  # would close a cycle: LoopError
    elif r < 0.5:
        op = {"op": "children", "n": bottom(), "xs": [top()], "c": "list"}  # LoopError through the children setter
    elif r < 0.7:
        op = {"op": "parent", "n": bottom(), "p": top()}  # legal move of a deep node
    elif r < 0.85:
        op = {"op": "parent", "n": bottom(), "p": None}
    else:
        op = {"op": "parent", "n": rng.randrange(n), "p": rng.randrange(n)}
    if cfg["profile"] != "none" and rng.random() < 0.4:
        exp = expect_of(model, op)
        f = gen_fault(rng, "once", len(exp.trace), cfg["hooks"], cfg["excs"], exp.trace)
        if f is not None:
            op["f"] = f
    return op


def gen_op(rng, model, cfg, step):
    if cfg.get("deep"):
        return gen_deep_op(rng, model, cfg, step)
    w = cfg["w"]
    n_nodes = len(model)
    kinds = [("parent", w["parent"]), ("children", w["children"]), ("del", w["del"])]
    if n_nodes < len(cfg["classes"]) + 4:
        kinds.append(("new", w["new"]))
    kind = wchoice(rng, kinds)
    allow_nn = cfg["allow_nn"]
    if kind == "parent":
        n = rng.randrange(n_nodes)
        p, role = gen_parent_target(rng, model, n, allow_nn)
        op = {"op": "parent", "n": n, "p": p}
    elif kind == "children":
        n = rng.randrange(n_nodes)
        if cfg.get("big") and rng.random() < 0.6:
            n = max(range(n_nodes), key=lambda i: len(model.children[i]))  # the widest node
        xs, cont, role = gen_children_seq(rng, model, n, allow_nn)
        op = {"op": "children", "n": n, "xs": xs, "c": cont}
    elif kind == "del":
        # prefer nodes that have children
        cands = [i for i in range(n_nodes) if model.children[i]]
        n = rng.choice(cands) if cands and rng.random() < 0.8 else rng.randrange(n_nodes)
        if cfg.get("big") and rng.random() < 0.5:
            n = max(range(n_nodes), key=lambda i: len(model.children[i]))
        op = {"op": "del", "n": n}
    else:
        cls = rng.choice(cfg["menu"])
        op = {"op": "new", "cls": cls, "name": node_name(cfg, n_nodes)}
        if cls in LINK_CLASSES:
            op["target"] = rng.randrange(n_nodes)
        r = rng.random()
        if r < 0.6:
            op["p"] = rng.randrange(n_nodes)
        elif r < 0.7 and allow_nn:
            op["p"] = {"nn": "int"}
        else:
            op["p"] = None
        r = rng.random()
        if r < 0.5:
            # children for a brand-new node: nobody is its ancestor unless given as parent
            k = rng.randint(0, 3)
            xs = [rng.randrange(n_nodes) for _ in range(k)]
            if rng.random() < 0.8:
                xs = list(dict.fromkeys(xs))
            op["xs"] = xs
            op["c"] = wchoice(rng, (("list", 5), ("tuple", 2), ("gen", 2)))
        elif r < 0.55:
            op["xs"] = {"noniter": rng.choice(("int", "none", "zero"))}
        if cls in ("HNode", "HNodeEq", "HNodeBag", "HNodeNo", "HNodeInst", "HAny", "HMix", "HSym", "PNode", "PAny", "PSym") and rng.random() < 0.3:
            # keyword attributes: data of the user's, whatever they are called
            # (not in twin universes: the __slots__ twin has no room for them)
            plain = rng.random() < 0.5 or cfg["prop"] not in ("C01", "C02", "C03", "C16", "C20")
            op["attrs"] = {"foo": step} if plain else {rng.choice(KW_WORDS): rng.choice((0, 1, step, "s%d" % step, None, True))}
    prof = cfg["profile"]
    if cfg["prop"] == "C02" and op["op"] == "parent" and n_nodes > 2 and rng.random() < 0.06:
        exp = expect_of(model, op)
        if exp.exc is None and exp.trace:
            x = rng.choice([i for i in range(n_nodes) if i != op["n"]])
            op["f"] = {"act": [[rng.randrange(len(exp.trace)), x]]}
        return op
    if cfg["prop"] in ("C18",) + (("C01",) if cfg.get("acts") else ()) and n_nodes > 2 and rng.random() < 0.06:
        exp = expect_of(model, op)
        if exp.trace:
            # a hook that re-parents some node while the call is in flight
            # the new place is in a tree that has nothing to do with the call, so the nested move can never
            # interfere with the loop check the call has already made
            busy = set()
            for i in [op.get("n"), op.get("p")] + (op["xs"] if isinstance(op.get("xs"), list) else []):
                if isinstance(i, int):
                    busy.add(model.root(i))
            free = [i for i in range(n_nodes) if model.root(i) not in busy]
            x = rng.randrange(n_nodes)
            if op["op"] in ("children", "del") and model.children[op["n"]] and rng.random() < 0.6:
                x = rng.choice(model.children[op["n"]])
            y = rng.choice(free) if free and rng.random() < 0.8 else None
            if y is not None and model.root(x) == model.root(y):
                y = None
            xs = op.get("xs")
            if op["op"] == "children" and isinstance(xs, list) and len(xs) >= 2 and isinstance(xs[-1], int) and rng.random() < 0.3:
                # the root of n's own tree is moved below a child that is still to be attached: the
                # per-child loop check has to see the new situation
                r = model.root(op["n"])
                # (the child must be a root of its own: were it below an earlier element of xs, that element's
                # attach - whose loop check precedes its hooks - could no longer see the move)
                if r != op["n"] and model.parent[xs[-1]] is None and xs[-1] != r:
                    # ... and it has to happen before that child's own attach begins (its loop check comes
                    # before its _pre_attach hook; a move at that late point defeats any implementation)
                    first = [i for i, ev in enumerate(exp.trace) if ev[0] in PARENT_HOOKS and ev[1] == xs[-1]]
                    if first and first[0] > 0:
                        op["f"] = {"act": [[rng.randrange(first[0]), r, xs[-1]]]}
                        return op
            if x != op.get("n"):
                op["f"] = {"act": [[rng.randrange(len(exp.trace)), x, y]]}
                return op
    if cfg.get("persist_run"):
        op["f"] = {"persist": cfg["persist_spec"]}
    elif prof != "none" and rng.random() < cfg["p_fault"]:
        exp = expect_of(model, op)
        f = gen_fault(rng, prof, len(exp.trace), cfg["hooks"], cfg["excs"], exp.trace)
        if f is not None:
            if prof == "persist" and rng.random() < 0.5:
                # restrict to a node subset
                k = rng.randint(1, n_nodes)
                sub = sorted(rng.sample(range(n_nodes), k))
                for ent in f["persist"]:
                    ent[1] = sub
            op["f"] = f
    return op


# -- coverage signature ----------------------------------------------------------------------


def shape_sig(model, marks):
    """Canonical string of the unlabelled ordered forest with operation
    arguments marked; trees sorted so node numbering does not matter."""
    children = model.children

    def enc(i):
        m = marks.get(i, "")
        return m + "(" + "".join(enc(c) for c in children[i]) + ")"

    roots = [enc(i) for i in range(len(model)) if model.parent[i] is None]
    roots.sort()
    return "".join(roots)


def op_marks(op):
    marks = {}
    kind = op["op"]
    if "n" in op:
        marks[op["n"]] = "N"
    p = op.get("p")
    if isinstance(p, int):
        marks[p] = marks.get(p, "") + "P"
    xs = op.get("xs")
    if isinstance(xs, list):
        for j, x in enumerate(xs):
            if isinstance(x, int):
                marks[x] = marks.get(x, "") + "x%d" % j
    return marks


def op_brief(op):
    kind = op["op"]
    extra = ""
    p = op.get("p")
    if is_nn(p):
        extra += "p=nn"
    xs = op.get("xs")
    if isinstance(xs, dict):
        extra += "xs=noniter"
    elif isinstance(xs, list):
        if any(is_nn(x) for x in xs):
            extra += "xs~nn"
        extra += op.get("c", "list")[0]
    if kind == "new":
        extra += op["cls"]
    return kind + ":" + extra


def fired_brief(fired):
    return ",".join("%s@%d%s" % (f[1], f[0], f[3][3:5]) for f in fired)


# -- C03 ------------------------------------------------------------------------------------


def detach_set(pre, dset):
    """pre-state snapshot with the nodes of dset made roots (others keep order)."""
    out = []
    for i, (p, cs) in enumerate(pre):
        if i in dset:
            p = None
        out.append((p, tuple(c for c in cs if c not in dset)))
    return tuple(out)


def c03_predict(pre, op, exp, fired):
    """Which documented-contract deviation (known finding) the current call may
    exhibit, as (key, exact node set D) - or (None, None) if nothing may change,
    or ('C03-4', None) for the rollback-vetoed class which is judged by shape."""
    kind = op["op"]
    n = op["n"]
    nf = len(fired)
    in_trace = [f for f in fired if f[0] < len(exp.trace)]
    loop_reached = exp.exc == "LoopError" and kind == "children" and not in_trace
    causes = nf + (1 if loop_reached else 0)
    if kind == "parent":
        if nf == 1 and fired[0][1] == "pre_attach" and pre[n][0] is not None:
            return "C03-1", frozenset((n,))
        return None, None
    old = pre[n][1]
    if kind == "del":
        if nf == 1 and fired[0][1] == "pre_detach":
            i = old.index(fired[0][2]) if fired[0][2] in old else -1
            if i >= 1:
                return "C03-2", frozenset(old[:i])
        return None, None
    if kind == "children":
        xs = op["xs"]
        if not isinstance(xs, list) or exp.exc in ("TreeError", "TypeError", "ANY"):
            return None, None
        if causes >= 2:
            return "C03-4", None
        end_detach = 1 + 2 * len(old)  # index of post_detach_children in the ideal trace

        def foreign(x):
            return pre[x][0] is not None and pre[x][0] != n

        if loop_reached:
            j = exp.loop_at
            d = frozenset(x for x in xs[:j] if foreign(x))
            return ("C03-3", d) if d else (None, None)
        if nf == 1:
            k, hk, ni = fired[0][0], fired[0][1], fired[0][2]
            if k <= end_detach:
                if hk == "pre_detach" and ni in old:
                    i = old.index(ni)
                    if i >= 1:
                        return "C03-2", frozenset(old[:i])
                return None, None
            if hk == "pre_attach_children":
                return None, None
            if ni in xs:
                j = xs.index(ni)
                if hk == "pre_detach":
                    d = frozenset(x for x in xs[:j] if foreign(x))
                elif hk == "pre_attach":
                    d = frozenset(x for x in xs[: j + 1] if foreign(x))
                else:
                    return None, None
                return ("C03-3", d) if d else (None, None)
        return None, None
    return None, None


def c03_shape_ok(pre, post, op):
    """Rollback-vetoed class (>= 2 causes in one children assignment): nodes only
    leave their parents or end up under n if named by the call; nobody else moves
    and sibling orders are preserved."""
    n = op["n"]
    old = pre[n][1]
    xs = [x for x in op["xs"] if isinstance(x, int)]
    named = set(old) | set(xs)
    for i, ((p0, c0), (p1, c1)) in enumerate(zip(pre, post)):
        if p1 != p0:
            if i not in named:
                return False
            if p1 is not None and p1 != n:
                return False
        if i != n:
            # children may only have left, order kept
            it = iter(c0)
            for c in c1:
                for d in it:
                    if d == c:
                        break
                else:
                    return False
        else:
            def subseq(a, b):
                it2 = iter(b)
                for c in a:
                    for d in it2:
                        if d == c:
                            break
                    else:
                        return False
                return True

            if not (subseq(c1, old) or subseq(c1, xs)):
                return False
    return True


# -- C16 ------------------------------------------------------------------------------------


def c16_check(pre, post, log, fired, exp, status, observe):
    """Returns (clause, message) or None."""
    fired_ks = set(f[0] for f in fired)
    plain = [(e[0], e[1], e[2]) for e in log]
    want = [(k, a, tuple(b) if isinstance(b, (list, tuple)) else b) for (k, a, b) in exp.trace]
    # (a) exact trace where the statement fixes it
    if not fired:
        if exp.exc is None:
            # successful calls and no-ops: the statement fixes the whole trace
            if plain != want:
                return "trace", "hook trace %r, expected %r" % (plain, want)
        elif exp.exc in ("TreeError", "TypeError") or (exp.exc == "LoopError" and exp.loop_at is None):
            # refused up front: no link changes, hence no per-node hook may fire
            # (whether a *_children hook fires before the refusal is not specified)
            # (a constructor's parent part may already have run: `want` holds its events)
            pernode = [e for e in plain if e[0] in PARENT_HOOKS]
            if pernode != [e for e in want if e[0] in PARENT_HOOKS]:
                return "trace", "refused call fired per-node hooks %r" % (pernode,)
        else:
            if plain[: len(want)] != want:
                return "trace-prefix", "hook trace %r does not start with %r" % (plain, want)
    else:
        first = min(fired_ks)
        if plain[: first + 1] != want[: first + 1] and first < len(want):
            return "trace-prefix", "hook trace up to the first fault %r, expected %r" % (
                plain[: first + 1],
                want[: first + 1],
            )
    # (b)+(c) per-node automaton with in-hook observations
    tp = [p for (p, _) in pre]
    while len(tp) < len(post):
        tp.append(None)
    open_children = []
    nlog = len(log)
    for k, (kind, ni, ai, obs) in enumerate(log):
        raised = k in fired_ks
        if not isinstance(ni, int):
            return "unknown-node", "hook %s on unknown node %r" % (kind, ni)
        if kind == "pre_detach":
            if tp[ni] != ai or ai is None:
                return "pre_detach-arg", "event %d: pre_detach(%r) on node %d whose parent is %r" % (k, ai, ni, tp[ni])
            if obs is not None and (obs[0] != ai or obs[1] < 0):
                return "pre_detach-obs", "event %d: pre_detach sees parent=%r position=%r" % (k, obs[0], obs[1])
            if not raised:
                if k + 1 >= nlog or (log[k + 1][0], log[k + 1][1], log[k + 1][2]) != ("post_detach", ni, ai):
                    return "pairing", "event %d: pre_detach(%d,%r) not followed by its post_detach" % (k, ni, ai)
        elif kind == "post_detach":
            if k == 0 or (log[k - 1][0], log[k - 1][1], log[k - 1][2]) != ("pre_detach", ni, ai) or (k - 1) in fired_ks:
                return "pairing", "event %d: post_detach(%d,%r) without its pre_detach" % (k, ni, ai)
            tp[ni] = None
            if obs is not None and (obs[0] is not None or obs[1] != -1):
                return "post_detach-obs", "event %d: post_detach sees parent=%r position=%r" % (k, obs[0], obs[1])
        elif kind == "pre_attach":
            if tp[ni] is not None or not isinstance(ai, int):
                return "pre_attach-arg", "event %d: pre_attach(%r) on node %d whose parent is %r" % (k, ai, ni, tp[ni])
            if obs is not None and (obs[0] is not None or obs[1] != -1):
                return "pre_attach-obs", "event %d: pre_attach sees parent=%r position=%r" % (k, obs[0], obs[1])
            if not raised:
                if k + 1 >= nlog or (log[k + 1][0], log[k + 1][1], log[k + 1][2]) != ("post_attach", ni, ai):
                    return "pairing", "event %d: pre_attach(%d,%r) not followed by its post_attach" % (k, ni, ai)
        elif kind == "post_attach":
            if k == 0 or (log[k - 1][0], log[k - 1][1], log[k - 1][2]) != ("pre_attach", ni, ai) or (k - 1) in fired_ks:
                return "pairing", "event %d: post_attach(%d,%r) without its pre_attach" % (k, ni, ai)
            tp[ni] = ai
            if obs is not None and (obs[0] != ai or obs[1] != obs[2] - 1):
                return "post_attach-obs", "event %d: post_attach sees parent=%r position=%r of %r" % (
                    k,
                    obs[0],
                    obs[1],
                    obs[2],
                )
        else:
            # *_children hooks: argument and what the hook sees of the node's children
            cur = tuple(i for i in range(len(tp)) if tp[i] == ni)
            if obs is not None:
                seen = obs[1]
                if set(seen) != set(cur):
                    return "children-obs", "event %d: %s sees children %r, announced links say %r" % (k, kind, seen, cur)
                if kind == "pre_detach_children" and tuple(seen) != tuple(ai):
                    return "children-arg", "event %d: pre_detach_children%r but children are %r" % (k, ai, seen)
                if kind == "post_detach_children" and seen:
                    return "children-obs", "event %d: post_detach_children still sees %r" % (k, seen)
                if kind == "pre_attach_children" and seen:
                    return "children-obs", "event %d: pre_attach_children already sees %r" % (k, seen)
                if kind == "post_attach_children" and tuple(seen) != tuple(ai):
                    return "children-obs", "event %d: post_attach_children%r sees %r" % (k, ai, seen)
            if kind.startswith("pre_"):
                if not raised:
                    open_children.append((kind[4:], ni, ai))
            else:
                want_open = (kind[5:], ni, ai)
                if want_open not in open_children:
                    return "pairing", "event %d: %s(%d,%r) without its pre hook" % (k, kind, ni, ai)
                open_children.remove(want_open)
    # every link change that happened was announced, nothing announced did not happen
    for i, (p, _) in enumerate(post):
        if tp[i] != p:
            return "unannounced", "node %d: parent is %r but the hooks announced %r" % (i, p, tp[i])
    return None


# -- the run -----------------------------------------------------------------------------------


def build_world(cfg, world=None):
    world = world or World(observe_hooks=cfg.get("observe_hooks", False))
    world.hook_reads = tuple(cfg.get("hook_reads") or ())
    world.hook_ret = cfg.get("hook_ret")
    world.call_super = bool(cfg.get("hook_super"))
    model = ForestModel()
    for i, cls in enumerate(cfg["classes"]):
        t = cfg["targets"][i]
        world.new(world.class_for(cls), node_name(cfg, i), target=None if t is None else world.nodes[t])
        model.add(FAMILY[cls])
    for i, p in enumerate(cfg.get("init_parents") or ()):
        if p is not None:
            # plain parent assignments, outside any operation (hooks are not routed)
            try:
                world.nodes[i].parent = world.nodes[p]
            except Exception as exc:  # noqa: BLE001
                raise SetupRefused("building the initial forest: node %d refused parent %d (a legal attach): %s: %s" % (i, p, type(exc).__name__, exc))
            model.apply_parent(i, p)
    return world, model


class SetupRefused(Exception):
    pass


def run(cfg, ops=None, rng=None, extra=None, pre_gen=None, handle=None):
    """Execute one run. `extra` is an optional per-step callback
    extra(step, world, model, res, op, status, exc) used by machines built on
    top of this one (C04 query battery, C20 attribute store); `pre_gen(rng,
    model, cfg, step)` may return a non-structural operation to run instead of
    a structural one and `handle(step, world, model, res, op)` executes it."""
    prop = cfg["prop"]
    res = Result()
    try:
        world, model = build_world(cfg)
    except SetupRefused as sr:
        res.violation = Violation(prop if prop in ("C02", "C20") else "GUARD", "setup", -1, "setup-refused", str(sr))
        res.ops = list(ops) if ops is not None else []
        res.digest = "setup"
        res.bump("runs")
        return res
    res.world = world
    h = hashlib.blake2b(digest_size=16)
    h.update(repr(sorted(cfg.items())).encode())
    replay = ops is not None
    length = len(ops) if replay else cfg["L"]
    obs_every = cfg.get("obs", 1)
    try:
        for step in range(length):
            if replay:
                op = ops[step]
            else:
                op = pre_gen(rng, model, cfg, step) if pre_gen is not None else None
                if op is None:
                    op = gen_op(rng, model, cfg, step)
                res.ops.append(op)
            if op["op"] not in STRUCT_OPS:
                res.steps += 1
                res.bump("ops")
                res.bump("op_" + op["op"])
                h.update(repr((step, sorted(op.items()))).encode())
                handle(step, world, model, res, op)
                continue
            exp = expect_of(model, op)
            pre = model.snapshot()
            sig_shape = "deep" if cfg.get("deep") else shape_sig(model, op_marks(op))
            run_op = op
            if op.get("f") and op["f"].get("act"):
                safe = [a for a in op["f"]["act"] if act_safe(model, op, a, exp)]
                if len(safe) != len(op["f"]["act"]):
                    run_op = dict(op, f=dict(op["f"], act=safe))
                    res.bump("hook_actions_dropped_as_unsafe_here")
            try:
                if cfg.get("warn_error"):
                    # the process runs with warnings turned into errors (python -W error, pytest filterwarnings=error)
                    with warnings.catch_warnings():
                        warnings.simplefilter("error")
                        status, exc = exec_op(world, run_op)
                else:
                    status, exc = exec_op(world, run_op)
            except Watchdog as wd:
                # no call on a forest of a dozen nodes takes this long: the call does not terminate
                raise Violation(
                    prop if prop in ("C01", "C02", "C20") else "GUARD",
                    "hang",
                    step,
                    "hang:" + op["op"],
                    "step %d %s neither returned nor raised: %s" % (step, op, wd),
                )
            newidx = None
            if op["op"] == "new":
                # the constructed object exists from now on, whatever the outcome
                newidx = model.add(FAMILY[op["cls"]])
                pre = pre + ((None, ()),)
            res.steps += 1
            fired = world.fired
            log = world.hooklog
            excname = type(exc).__name__ if exc is not None else None
            res.bump("ops")
            res.bump("op_" + op["op"])
            res.bump("hooks", len(log))
            res.hooks_per_op.append(len(log))
            res.hook_kinds.append([e[0] for e in log])
            if fired:
                res.bump("ops_with_fault")
                for f in fired:
                    res.bump("fault_" + f[4])
                    res.bump("fault@" + f[1])
                    res.bump("faultexc_" + f[3])
            if excname:
                res.bump("exc_" + excname)
            elif not log and not fired:
                res.bump("noop_or_silent")
            sig = (sig_shape, op_brief(op), fired_brief(fired), excname)
            res.sigs.add(stable_hash(sig))
            if log or excname:
                res.bump("nontrivial_ops")
            h.update(repr((step, op_brief(op), excname, fired_brief(fired), len(log))).encode())
            # (vii) no internal assertion may ever fire
            if excname == "AssertionError" and not world.acted:
                # (a hook that moved a node itself may trip the setter's child-count assertion: hooks that
                # change the tree are outside every property, the assertion documents just that)
                raise Violation(
                    prop if prop in ("C01", "C02") else "GUARD",
                    "assertion",
                    step,
                    "assertion:" + op["op"],
                    "step %d %s: AssertionError: %s" % (step, op, exc),
                )
            last = step == length - 1
            if cfg.get("mixed"):
                # no reference prediction across the two mixins: the invariant alone decides, then the model follows
                post = observe_links(world, prop, step, op)
                h.update(repr(post).encode())
                res.states.add(stable_hash(post))
                res.bump("mixed_family_ops")
                bad = invariants.check_forest(world)
                if bad:
                    clause, _ = bad[0]
                    raise Violation(prop, clause, step, "%s:%s:mixed" % (clause, op["op"]),
                                    "after step %d %s (outcome: %s; nodes of both mixins): %s" % (step, op, excname or "returned", "; ".join(d for _, d in bad[:3])))
                model.load(post)
                continue
            observe = (
                prop != "C01"
                or status == "exc"
                or last
                or (obs_every and step % obs_every == obs_every - 1)
                or (exp.exc is not None)  # the model says 'refused' but the call went through: look
                or bool(world.acted)  # a hook moved a node: re-synchronise the model from what is there
            )
            if not observe:
                apply_op(model, op, newidx)
                continue
            # the snapshot reads .parent/.children of every node and never walks the
            # structure, so it is safe even on a corrupt forest; the structure-comparing
            # oracles (C02, C03, C16) therefore judge before the consistency guard
            post = observe_links(world, prop, step, op)
            h.update(repr(post).encode())
            res.states.add(stable_hash(post))
            for _, x in (a[:2] for a in world.acted):
                # a hook detached another node while the call was in flight; that commutes with the call's own effect
                model.apply_parent(x, None)
                res.bump("hook_actions")
            if status == "ok":
                apply_op(model, op, newidx)
            ideal = model.snapshot()
            if prop == "C02":
                c02_judge(step, op, exp, status, excname, exc, fired, post, ideal, prop)
            elif prop == "C03":
                if status == "exc":
                    c03_judge(res, step, op, exp, pre, post, fired, excname)
            elif prop == "C16":
                c16_judge(step, op, exp, status, excname, exc, fired, log, pre, post, cfg)
            bad = invariants.check_forest(world)
            if bad:
                clause, _ = bad[0]
                raise Violation(
                    prop if prop in ("C01", "C20") else "GUARD",
                    clause,
                    step,
                    "%s:%s:%s" % (clause, op["op"], fired[0][1] if fired else "-"),
                    "after step %d %s (outcome: %s; faults: %s): %s"
                    % (step, op, excname or "returned", fired_brief(fired[:6]) + (" ... %d in all" % len(fired) if len(fired) > 6 else "") or "none",
                       "; ".join(d for _, d in bad[:3])),
                )
            if prop == "C20":
                # only the nodes the call names are notified: a link's move is none of its target's business
                named = {op.get("n")} | set(pre[op["n"]][1] if isinstance(op.get("n"), int) and op["n"] < len(pre) else ())
                named |= set(x for x in (op.get("xs") if isinstance(op.get("xs"), list) else ()) if isinstance(x, int))
                if newidx is not None:
                    named.add(newidx)
                if not world.acted:
                    for ev in log:
                        if ev[1] not in named:
                            raise Violation(prop, "hooks", step, "hooks:foreign:" + ev[0],
                                            "step %d %s: %s was called on node %r, which the call does not name (hook log %r)" % (step, op, ev[0], ev[1], [e[:3] for e in log]))
                c02_judge(step, op, exp, status, excname, exc, fired, post, ideal, prop)
            if post != ideal:
                # continue from what is really there (only C02/C03 judge the difference)
                model.load(post)
            if extra is not None:
                extra(step, world, model, res, op, status, exc)
    except Violation as v:
        res.violation = v
    res.digest = h.hexdigest()
    res.bump("runs")
    return res


def act_safe(model, op, act, exp):
    """Is a tree-changing hook action still inside the envelope it was generated for?  (Evaluated again at
    execution time: a shrunk history, or the same history on another version of the library, reaches the
    operation in another state, and a hook that re-parents a node at the wrong moment builds a cycle all by
    itself - behind the back of a loop check that has already been made - in any implementation.)"""
    if len(act) < 3 or act[2] is None:
        return True  # detaching a node can never close a cycle
    k, x, y = act
    n_nodes = len(model)
    if not (isinstance(x, int) and isinstance(y, int) and x < n_nodes and y < n_nodes):
        return False
    busy = set()
    for i in [op.get("n"), op.get("p")] + (op["xs"] if isinstance(op.get("xs"), list) else []):
        if isinstance(i, int) and i < n_nodes:
            busy.add(model.root(i))
    if model.root(y) not in busy and model.root(x) != model.root(y):
        return True
    xs = op.get("xs")
    if op["op"] == "children" and isinstance(xs, list) and len(xs) >= 2 and y == xs[-1] and isinstance(op.get("n"), int) and op["n"] < n_nodes:
        r = model.root(op["n"])
        if x == r and r != op["n"] and model.parent[y] is None and y != r:
            first = [i for i, ev in enumerate(exp.trace) if ev[0] in PARENT_HOOKS and ev[1] == y]
            return bool(first) and k < first[0]
    return False


def observe_links(world, prop, step, op):
    """(parent, children) of every node through the public API.  Reading `.parent` and `.children` never raises
    on any forest, consistent or not: an exception here is the library's (C01's business; a guard trip elsewhere)."""
    try:
        return world.snapshot()
    except Exception as exc:  # noqa: BLE001
        raise Violation(prop if prop in ("C01", "C02", "C20") else "GUARD", "observation", step, "observation:raises:" + type(exc).__name__,
                        "after step %d %s: reading parent/children of the nodes raised %s: %s" % (step, op, type(exc).__name__, str(exc)[:200]))


def stable_hash(obj):
    return int.from_bytes(hashlib.blake2b(repr(obj).encode(), digest_size=8).digest(), "big")


def c02_judge(step, op, exp, status, excname, exc, fired, post, ideal, prop="C02"):
    if fired:
        return
    if status == "ok":
        if exp.exc is not None and exp.exc != "ANY":
            raise Violation(
                prop,
                "not-refused",
                step,
                "not-refused:%s:%s" % (op["op"], exp.exc),
                "step %d %s succeeded, must be refused with %s" % (step, op, exp.exc),
            )
        if post != ideal:
            raise Violation(
                prop,
                "effect",
                step,
                "effect:" + op["op"],
                "step %d %s: structure is %r, specified %r" % (step, op, diff_snap(ideal, post)[1], diff_snap(ideal, post)[0]),
            )
        return
    if exp.exc is None:
        raise Violation(
            prop,
            "refused",
            step,
            "refused:%s:%s" % (op["op"], excname),
            "step %d %s raised %s: %s, must succeed" % (step, op, excname, exc),
        )
    if exp.exc != "ANY" and not refusal_matches(exc, exp.exc):
        raise Violation(
            prop,
            "refusal-class",
            step,
            "refusal-class:%s:%s:%s" % (op["op"], exp.exc, excname),
            "step %d %s raised %s: %s; specified %s" % (step, op, excname, exc, exp.exc),
        )


def refusal_matches(exc, want):
    """TreeError means TreeError-but-not-LoopError (subclasses allowed), LoopError
    and TypeError mean instances of those classes."""
    from anytree import LoopError, TreeError

    if want == "LoopError":
        return isinstance(exc, LoopError)
    if want == "TreeError":
        return isinstance(exc, TreeError) and not isinstance(exc, LoopError)
    if want == "TypeError":
        return isinstance(exc, TypeError)
    return type(exc).__name__ == want


def diff_snap(a, b):
    """Entries (index, (parent, children)) where two snapshots differ."""
    da = [(i, a[i]) for i in range(min(len(a), len(b))) if a[i] != b[i]]
    db = [(i, b[i]) for i in range(min(len(a), len(b))) if a[i] != b[i]]
    return da, db


def c16_judge(step, op, exp, status, excname, exc, fired, log, pre, post, cfg):
    if excname == "RecursionError":
        # stack exhaustion (the unbounded rollback recursion of finding C03-4): the interpreter may refuse
        # the very call that would have recorded a hook, so the log cannot be judged
        return
    bad16 = c16_check(pre, post, log, fired, exp, status, cfg.get("observe_hooks"))
    if bad16:
        raise Violation(
            "C16",
            bad16[0],
            step,
            "%s:%s" % (bad16[0], op["op"]),
            "step %d %s (faults: %s): %s" % (step, op, fired_brief(fired) or "none", bad16[1]),
        )
    if fired and status == "ok":
        raise Violation(
            "C16",
            "swallowed",
            step,
            "swallowed:" + op["op"],
            "step %d %s: hook %s raised but the call returned normally" % (step, op, fired_brief(fired)),
        )
    # (d) an exception from a hook of a parent assignment propagates as is
    if fired and op["op"] == "parent":
        ser = getattr(exc, "sim_serial", None)
        if ser != fired[-1][5]:
            raise Violation(
                "C16",
                "exception-identity",
                step,
                "exception-identity:" + op["op"],
                "step %d %s: hook raised injected#%d but %s propagated" % (step, op, fired[-1][5], excname),
            )


KNOWN_OPEN = set()  # keys of open known findings, set by the engine from known_findings.txt


def c03_judge(res, step, op, exp, pre, post, fired, excname):
    kind = op["op"]
    if kind not in ("parent", "children", "del"):
        return
    # scope: invalid request, or pre-hook faults raising Exception subclasses
    for f in fired:
        if f[1] not in PRE_HOOKS or f[3] == "SimCancel":
            return
    if not fired and exp.exc is None:
        return  # an unexpected refusal is C02's business
    res.bump("c03_judged")
    if post == pre:
        res.bump("c03_unchanged")
        return
    key, dset = c03_predict(pre, op, exp, fired)
    if key in KNOWN_OPEN:
        if dset is not None:
            if post == detach_set(pre, dset):
                res.known[key] = res.known.get(key, 0) + 1
                return
        elif key == "C03-4":
            if c03_shape_ok(pre, post, op):
                res.known[key] = res.known.get(key, 0) + 1
                return
    cause = fired[0][1] if fired else (exp.exc or excname)
    changed = [i for i in range(len(pre)) if pre[i] != post[i]]
    raise Violation(
        "C03",
        "changed",
        step,
        "changed:%s:%s:%s" % (kind, cause, key or "-"),
        "step %d %s raised %s (faults %s) but nodes %r changed: before %r after %r"
        % (step, op, excname, fired_brief(fired), changed, [pre[i] for i in changed], [post[i] for i in changed]),
    )


# -- engine interface -----------------------------------------------------------------------------


def brief_cfg(cfg):
    return {
        k: cfg[k]
        for k in ("family", "classes", "targets", "init_parents", "profile", "obs", "observe_hooks", "assert", "L")
        if k in cfg
    }


def with_fault(op, f):
    op2 = {k: v for k, v in op.items() if k != "f"}
    if f is not None:
        op2["f"] = f
    return op2


def sweep(cfg, res, rng, tier):
    """Fault-position enumeration on a sampled history: for every operation t of
    the run's history and every hook position k of its fault-free execution (and
    each in-scope exception class), the history prefix ops[:t] is re-executed and
    then operation t with the k-th hook invocation raising.  The prefix is
    re-executed rather than copied so that no copy mechanism is trusted."""
    prop = cfg["prop"]
    if prop not in ("C01", "C03", "C16", "C18"):
        return
    if cfg["profile"] != "none" or cfg.get("big") or len(res.ops) > (10 if tier == "thorough" else 6):
        return
    hooks = cfg["hooks"]
    excs = list(cfg["excs"])
    if tier != "thorough":
        excs = excs[:1] + [e for e in excs[1:] if e in ("SimAssert", "SimCancel")]
    counts = res.hooks_per_op
    kinds = None if tuple(hooks) == ALL_HOOKS else list(hooks)
    base = [with_fault(op, None) for op in res.ops]
    for t, op in enumerate(base):
        for k in range(counts[t]):
            if kinds is not None and res.hook_kinds[t][k] not in kinds:
                continue
            for exc in excs:
                yield cfg, base[:t] + [with_fault(op, {"once": [[k, exc, kinds]]})]
            # a second fault shortly after the first: lands in the rollback path
            if tier == "thorough" or k % 2 == 0:
                k2 = k + 1 + (k + t) % 5
                yield cfg, base[:t] + [with_fault(op, {"once": [[k, excs[0], kinds], [k2, excs[-1] if excs[-1] != "SimCancel" else excs[0], kinds]]})]


def simplify_op(op):
    """Simpler variants of one operation (for the shrinker)."""
    f = op.get("f")
    if f is not None:
        yield with_fault(op, None)
        once = f.get("once") or []
        pers = f.get("persist") or []
        if len(once) > 1:
            for i in range(len(once)):
                yield with_fault(op, {"once": once[:i] + once[i + 1:]})
        if once and pers:
            yield with_fault(op, {"once": once})
            yield with_fault(op, {"persist": pers})
        if len(pers) > 1:
            for i in range(len(pers)):
                yield with_fault(op, dict(f, persist=pers[:i] + pers[i + 1:]))
        for i, ent in enumerate(once):
            if ent[1] != "SimFault":
                yield with_fault(op, dict(f, once=once[:i] + [[ent[0], "SimFault"] + ent[2:]] + once[i + 1:]))
            if ent[0] > 0:
                yield with_fault(op, dict(f, once=once[:i] + [[ent[0] - 1] + ent[1:]] + once[i + 1:]))
        for i, ent in enumerate(pers):
            if ent[2] != "SimFault":
                yield with_fault(op, dict(f, persist=pers[:i] + [[ent[0], ent[1], "SimFault"]] + pers[i + 1:]))
    xs = op.get("xs")
    if isinstance(xs, list):
        for i in range(len(xs)):
            yield dict(op, xs=xs[:i] + xs[i + 1:])
        if op.get("c", "list") != "list":
            yield dict(op, c="list")
    if op["op"] == "new":
        if op.get("attrs"):
            yield {k: v for k, v in op.items() if k != "attrs"}
        if "xs" in op:
            yield {k: v for k, v in op.items() if k not in ("xs", "c")}
        if op.get("p") is not None:
            yield dict(op, p=None)


def _renumber_item(x, mp):
    if isinstance(x, int):
        return mp[x]
    return x


def simplify_cfg(cfg, ops):
    """Drop a universe node no operation names (renumbering the rest); use the
    simplest class of the family; observe at every step."""
    n0 = len(cfg["classes"])
    used = set()
    for op in ops:
        for key in ("n", "p", "target"):
            if isinstance(op.get(key), int):
                used.add(op[key])
        if isinstance(op.get("xs"), list):
            used.update(x for x in op["xs"] if isinstance(x, int))
        f = op.get("f") or {}
        for ent in f.get("persist", ()):
            if ent[1]:
                used.update(ent[1])
    for t in cfg["targets"]:
        if t is not None:
            used.add(t)
    ip = cfg.get("init_parents") or [None] * n0
    for t in ip:
        if t is not None:
            used.add(t)
    for ent in cfg.get("persist_spec", ()) or ():
        if ent[1]:
            used.update(ent[1])
    for i in range(n0 - 1, -1, -1):
        if i in used or n0 <= 1:
            continue
        total = n0 + sum(1 for op in ops if op["op"] == "new")
        mp = {j: (j if j < i else j - 1) for j in range(total + 1)}
        c2 = dict(cfg)
        c2["classes"] = cfg["classes"][:i] + cfg["classes"][i + 1:]
        c2["targets"] = [None if t is None else mp[t] for t in (cfg["targets"][:i] + cfg["targets"][i + 1:])]
        c2["init_parents"] = [None if t is None else mp[t] for t in (ip[:i] + ip[i + 1:])]
        if cfg.get("persist_spec"):
            c2["persist_spec"] = [[e[0], None if e[1] is None else [mp[x] for x in e[1]], e[2]] for e in cfg["persist_spec"]]
        o2 = []
        for op in ops:
            op2 = dict(op)
            for key in ("n", "p", "target"):
                if isinstance(op.get(key), int):
                    op2[key] = mp[op[key]]
            if isinstance(op.get("xs"), list):
                op2["xs"] = [_renumber_item(x, mp) for x in op["xs"]]
            f = op.get("f")
            if f and f.get("persist"):
                op2["f"] = dict(f, persist=[[e[0], None if e[1] is None else [mp[x] for x in e[1]], e[2]] for e in f["persist"]])
            o2.append(op2)
        yield c2, o2
    for i, t in enumerate(ip):
        if t is not None:
            yield dict(cfg, init_parents=ip[:i] + [None] + ip[i + 1:]), ops
    simplest = "HLight" if cfg["family"] == "light" else "HNode"
    for i, c in enumerate(cfg["classes"]):
        if c != simplest and c not in LINK_CLASSES and cfg["prop"] not in ("C18",):
            c2 = dict(cfg)
            c2["classes"] = cfg["classes"][:i] + [simplest] + cfg["classes"][i + 1:]
            yield c2, ops
    if cfg.get("obs", 1) != 1:
        yield dict(cfg, obs=1), ops
    if cfg.get("observe_hooks"):
        yield dict(cfg, observe_hooks=False), ops
    if cfg.get("hook_reads"):
        yield dict(cfg, hook_reads=None), ops
