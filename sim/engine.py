"""Seeded search driver: fans runs out over worker processes, aggregates
coverage, minimises and replays violations, handles known findings, writes
the evidence file.

The parent process never imports anytree: the ANYTREE_ASSERTIONS switch is
bound at import, so every process that touches the library is started (forked)
for one setting.  Run r uses setting r % 2.
"""
import faulthandler
import hashlib
import importlib
import json
import multiprocessing
import os
import random
import subprocess
import sys
import time
import traceback
from concurrent.futures import ProcessPoolExecutor, as_completed

from . import boot

VERIF = boot.VERIF_DIR
DEFAULT_SEED = 20260927
SIG_CAP = 6000000

# property -> machine module, runs per tier, level
PROPS = {}


def register(prop, machine, quick, thorough, level, title, rule, assumptions, components, chunk=200):
    PROPS[prop] = {
        "machine": machine,
        "quick": quick,
        "thorough": thorough,
        "level": level,
        "title": title,
        "rule": rule,
        "assumptions": assumptions,
        "components": components,
        "chunk": chunk,
    }


def run_rng(seed, prop, tier, r):
    hsh = hashlib.sha256(("%d:%s:%s:%d" % (seed, prop, tier, r)).encode()).digest()
    return random.Random(int.from_bytes(hsh[:8], "big"))


# -- known findings ------------------------------------------------------------------------


def load_known(prop=None):
    """Entries of /verif/known_findings.txt (read-only at run time)."""
    path = os.path.join(VERIF, "known_findings.txt")
    out = []
    if not os.path.exists(path):
        return out
    for line in open(path, encoding="utf-8"):
        line = line.strip()
        if not line or line.startswith("#"):
            continue
        status, _, rest = line.partition(":")
        status = status.strip()
        if status == "fixed":
            # fixed: property=<id> <commit> <what failed> :: key=<key> replay=<file>
            head, _, trailer = rest.partition("::")
            toks = head.split()
            fields = {"property": toks[0].partition("=")[2], "commit": toks[1] if len(toks) > 1 else None}
            text = " ".join(toks[2:])
            for tok in trailer.split():
                k, _, v = tok.partition("=")
                fields[k] = v
        else:
            # open: property=<id> key=<key> replay=<file> :: <what fails>
            head, _, text = rest.partition("::")
            fields = {}
            for tok in head.split():
                if "=" in tok:
                    k, _, v = tok.partition("=")
                    fields[k] = v
        ent = {
            "status": status,
            "property": fields.get("property"),
            "key": fields.get("key"),
            "replay": fields.get("replay"),
            "commit": fields.get("commit"),
            "text": text.strip(),
        }
        if prop is None or ent["property"] == prop:
            out.append(ent)
    return out


# -- worker side ------------------------------------------------------------------------------

_W = {}


def init_worker(assertions, open_keys):
    faulthandler.enable()
    import signal

    faulthandler.register(signal.SIGUSR1, all_threads=True)
    try:
        import resource

        # a corrupt structure (parent cycle) can make a library call allocate without
        # bound until the watchdog fires: make that a MemoryError, not an OOM kill
        lim = 4 << 30
        resource.setrlimit(resource.RLIMIT_AS, (lim, lim))
    except Exception:  # noqa: BLE001
        pass
    boot.setup(assertions)
    _W["assert"] = assertions
    _W["open"] = set(open_keys)


def machine_of(prop):
    m = importlib.import_module("sim." + PROPS[prop]["machine"])
    if hasattr(m, "KNOWN_OPEN"):
        m.KNOWN_OPEN.clear()
        m.KNOWN_OPEN.update(_W.get("open", ()))
    return m


def merge_stats(dst, src):
    for k, v in src.items():
        dst[k] = dst.get(k, 0) + v


def in_fork(fn, *args):
    """Run fn(*args) in a forked child of this (pristine) worker and return its
    result.  Worker processes themselves never execute a run: every chunk, replay
    and shrink starts from the state "anytree just imported", so process-wide
    hidden state (caches, memo tables - also ones a change to anytree adds) is a
    deterministic function of the chunk's own history."""
    import pickle

    r, w = os.pipe()
    pid = os.fork()
    if pid == 0:
        try:
            os.close(r)
            try:
                data = pickle.dumps(("ok", fn(*args)), 4)
            except BaseException:  # noqa: B902
                data = pickle.dumps(("err", traceback.format_exc()), 4)
            with os.fdopen(w, "wb") as f:
                f.write(data)
        finally:
            os._exit(0)
    os.close(w)
    with os.fdopen(r, "rb") as f:
        data = f.read()
    os.waitpid(pid, 0)
    if not data:
        raise RuntimeError("forked run died without a result (killed?)")
    kind, val = pickle.loads(data)
    if kind == "err":
        raise RuntimeError("exception in forked run:\n" + val)
    return val


def work_chunk(prop, tier, seed, runs, want_digests=False, sweep=True):
    return in_fork(_work_chunk, prop, tier, seed, runs, want_digests, sweep)


def _work_chunk(prop, tier, seed, runs, want_digests=False, sweep=True):
    """Execute the given run indices; return aggregated, picklable results."""
    m = machine_of(prop)
    stats = {}
    sigs = set()
    states = set()
    known = {}
    violations = []
    digests = {}
    samples = []
    evaluations = 0
    steps = 0
    pending = []
    t0 = time.time()
    done = []
    for r in runs:
        rng = run_rng(seed, prop, tier, r)
        cfg = m.gen_cfg(rng, prop, tier)
        cfg["assert"] = _W["assert"]
        res = m.run(cfg, rng=rng)
        done.append(r)
        evaluations += 1
        steps += res.steps
        merge_stats(stats, res.stats)
        merge_stats(known, res.known)
        sigs |= res.sigs
        states |= res.states
        if want_digests:
            digests[r] = res.digest
        if getattr(res, "pickles", None):
            pending.append((r, cfg, res.ops, res.pickles))
        if len(samples) < 2 and res.ops:
            samples.append({"run": r, "cfg": m.brief_cfg(cfg), "ops": res.ops[:12], "violation": None})
        if res.violation is not None:
            violations.append({"run": r, "cfg": cfg, "ops": res.ops, "violation": res.violation.as_dict(), "history": done[:-1]})
            if len(violations) >= 3:
                break  # this tree is broken; do not burn the budget (hangs cost a watchdog period each)
            continue
        if sweep and hasattr(m, "sweep"):
            for cfg2, ops2 in m.sweep(cfg, res, rng, tier):
                res2 = m.run(cfg2, ops=ops2)
                evaluations += 1
                steps += res2.steps
                merge_stats(stats, res2.stats)
                merge_stats(known, res2.known)
                stats["sweep_runs"] = stats.get("sweep_runs", 0) + 1
                sigs |= res2.sigs
                states |= res2.states
                if res2.violation is not None:
                    violations.append(
                        {"run": r, "cfg": cfg2, "ops": ops2, "violation": res2.violation.as_dict(), "sweep": True, "history": list(done)}
                    )
                    break
            if len(violations) >= 3:
                break
    if pending and hasattr(m, "post_chunk"):
        more, pstats = m.post_chunk(pending, tier)
        merge_stats(stats, pstats)
        violations.extend(more[: max(0, 3 - len(violations))])
    return {
        "stats": stats,
        "sigs": sigs,
        "states": states,
        "known": known,
        "violations": violations,
        "digests": digests,
        "samples": samples,
        "evaluations": evaluations,
        "steps": steps,
        "cpu_s": time.time() - t0,
    }


def run_prelude(m, prop, tier, seed, prelude):
    """Re-execute earlier runs of the same process history (regenerated from the seed)."""
    for r in prelude or ():
        rng = run_rng(seed, prop, tier, r)
        cfg = m.gen_cfg(rng, prop, tier)
        cfg["assert"] = _W["assert"]
        m.run(cfg, rng=rng)


def _replay(prop, cfg, ops, prelude=None):
    m = machine_of(prop)
    if prelude:
        run_prelude(m, prop, prelude["tier"], prelude["seed"], prelude["runs"])
    res = m.run(cfg, ops=ops)
    return {
        "violation": res.violation.as_dict() if res.violation is not None else None,
        "known": res.known,
        "digest": res.digest,
        "steps": res.steps,
    }


def work_replay(prop, cfg, ops, prelude=None):
    return in_fork(_replay, prop, cfg, ops, prelude)


def _shrink(prop, cfg, ops, violation, max_execs, max_seconds):
    return shrink(machine_of(prop), cfg, ops, violation, max_execs, max_seconds)


def work_shrink(prop, cfg, ops, violation, max_execs=3000, max_seconds=20.0):
    sh = in_fork(_shrink, prop, cfg, ops, violation, max_execs, max_seconds)
    if sh["ok"]:
        # candidates ran one after the other in one process; make sure the result does not
        # depend on state the earlier candidates left behind
        got = in_fork(_replay, prop, sh["cfg"], sh["ops"], None)
        if same_violation(got["violation"], violation):
            return sh
    # isolated mode: every candidate in a fresh fork
    m = machine_of(prop)

    def run_isolated(c, o):
        got = in_fork(_replay, prop, c, o, None)
        return got["violation"], got["digest"]

    return shrink(m, cfg, ops, violation, 500, max_seconds, runner=run_isolated)


def work_prelude(prop, tier, seed, history, cfg, ops, violation, max_tests=60):
    """The violation needs state left behind by earlier runs of the same process:
    find a minimal list of earlier runs (each test in a fresh fork) after which
    the recorded run shows the same violation."""

    def test(runs):
        got = in_fork(_replay, prop, cfg, ops, {"tier": tier, "seed": seed, "runs": runs})
        return same_violation(got["violation"], violation)

    history = list(history)
    if not test(history):
        return None
    tests = [1]
    size = max(1, len(history) // 2)
    while size >= 1 and tests[0] < max_tests:
        i = 0
        while i < len(history) and tests[0] < max_tests:
            cand = history[:i] + history[i + size:]
            tests[0] += 1
            if test(cand):
                history = cand
            else:
                i += size
        size //= 2
    return {"tier": tier, "seed": seed, "runs": history}


# -- minimisation -------------------------------------------------------------------------------


def same_violation(v, target):
    return (
        v is not None
        and v["property"] == target["property"]
        and v["clause"] == target["clause"]
        and v["signature"] == target["signature"]
    )


def shrink(m, cfg, ops, target, max_execs, max_seconds, runner=None):
    t0 = time.time()
    execs = [0]

    def run_here(c, o):
        r = m.run(c, ops=o)
        return (r.violation.as_dict() if r.violation is not None else None), r.digest

    runner = runner or run_here

    def fails(c, o):
        if execs[0] >= max_execs or time.time() - t0 > max_seconds:
            return False
        execs[0] += 1
        try:
            v, _ = runner(c, o)
        except Exception:
            return False
        return same_violation(v, target)

    # truncate behind the failing step
    step = target.get("step")
    if isinstance(step, int) and step + 1 < len(ops) and fails(cfg, ops[: step + 1]):
        ops = ops[: step + 1]
    progress = True
    while progress and execs[0] < max_execs and time.time() - t0 <= max_seconds:
        progress = False
        # ddmin-style: remove chunks of decreasing size
        n = len(ops)
        size = max(1, n // 2)
        while size >= 1:
            i = 0
            while i < len(ops) and len(ops) > 1:
                cand = ops[:i] + ops[i + size:]
                if cand and fails(cfg, cand):
                    ops = cand
                    progress = True
                else:
                    i += size
            size //= 2
        # simplify single operations
        if hasattr(m, "simplify_op"):
            for i in range(len(ops)):
                changed = True
                while changed:
                    changed = False
                    for alt in m.simplify_op(ops[i]):
                        cand = ops[:i] + [alt] + ops[i + 1:]
                        if fails(cfg, cand):
                            ops = cand
                            progress = changed = True
                            break
        # simplify the configuration (drop unused nodes, simplest classes)
        if hasattr(m, "simplify_cfg"):
            changed = True
            while changed:
                changed = False
                for c2, o2 in m.simplify_cfg(cfg, ops):
                    if fails(c2, o2):
                        cfg, ops = c2, o2
                        progress = changed = True
                        break
    v, digest = runner(cfg, ops)
    return {"cfg": cfg, "ops": ops, "violation": v, "digest": digest, "execs": execs[0], "ok": same_violation(v, target)}


# -- parent side ---------------------------------------------------------------------------------


class Pools(object):
    def __init__(self, workers, open_keys):
        ctx = multiprocessing.get_context("fork")
        half = max(1, workers // 2)
        self.pools = [
            ProcessPoolExecutor(max_workers=half, mp_context=ctx, initializer=init_worker, initargs=(0, open_keys)),
            ProcessPoolExecutor(max_workers=half, mp_context=ctx, initializer=init_worker, initargs=(1, open_keys)),
        ]

    def submit(self, assertions, fn, *args, **kw):
        return self.pools[assertions].submit(fn, *args, **kw)

    def shutdown(self):
        # wait=True: tearing the pipes down under a still running manager thread
        # prints spurious "Bad file descriptor" tracebacks
        for p in self.pools:
            p.shutdown(wait=True, cancel_futures=True)


def evidence_dir():
    return os.environ.get("VERIF_EVIDENCE_DIR") or os.path.join(VERIF, "evidence")


def replay_path(prop, seed, run):
    d = os.environ.get("VERIF_REPLAY_DIR") or os.path.join(VERIF, "replays")
    os.makedirs(d, exist_ok=True)
    return os.path.join(d, "%s-%d-%d.json" % (prop, seed, run))


def write_json(path, obj):
    tmp = path + ".tmp"
    with open(tmp, "w", encoding="utf-8") as f:
        json.dump(obj, f, indent=1, sort_keys=True, default=repr)
        f.write("\n")
    os.replace(tmp, path)


def fresh_replay(path):
    """Replay a file in a fresh interpreter; returns (exit code, stdout)."""
    cmd = [sys.executable, "-B", os.path.join(VERIF, "check"), "replay", path]
    env = dict(os.environ)
    env["PYTHONHASHSEED"] = "1"
    p = subprocess.run(cmd, stdout=subprocess.PIPE, stderr=subprocess.STDOUT, env=env, timeout=300, cwd=VERIF)
    return p.returncode, p.stdout.decode("utf-8", "replace")


def check(prop, tier, seed, workers=16, runs=None, wall_cap=None, verbose=True):
    spec = PROPS[prop]
    t_start = time.time()
    planned = runs if runs is not None else spec[tier]
    wall_cap = wall_cap or (900 if tier == "quick" else 14400)
    known = load_known(prop)
    open_keys = [e["key"] for e in known if e["status"] == "open"]
    pools = Pools(workers, open_keys)
    exit_code = 0
    out_lines = []
    violations_found = []
    known_lines = []

    def say(s):
        out_lines.append(s)
        if verbose:
            print(s, flush=True)

    try:
        # 1. canonical replays of known findings / repaired defects
        for ent in known:
            path = os.path.join(VERIF, ent["replay"]) if ent["replay"] else None
            if not path or not os.path.exists(path):
                say("HARNESS-ERROR: known finding %s has no replay file" % ent["key"])
                return 2
            rec = json.load(open(path, encoding="utf-8"))
            fut = pools.submit(rec["cfg"].get("assert", 0), work_replay, prop, rec["cfg"], rec["ops"])
            got = fut.result(timeout=300)
            if ent["status"] == "open":
                if got["known"].get(ent["key"]):
                    line = "KNOWN-FINDING: property=%s %s [%s]" % (prop, ent["text"], ent["key"])
                    known_lines.append(line)
                    say(line)
                elif got["violation"] is not None:
                    say("note: canonical replay of %s now fails differently: %s" % (ent["key"], got["violation"]["message"]))
                    violations_found.append({"run": -1, "cfg": rec["cfg"], "ops": rec["ops"], "violation": got["violation"]})
                else:
                    say("note: known finding %s no longer reproduces on this tree" % ent["key"])
            else:  # fixed: a regression seed, suppresses nothing
                if got["violation"] is not None or got["known"]:
                    v = got["violation"] or {
                        "property": prop,
                        "clause": "regression",
                        "step": None,
                        "signature": "regression:" + str(ent["key"]),
                        "message": "repaired defect %s is back" % ent["key"],
                    }
                    violations_found.append({"run": -1, "cfg": rec["cfg"], "ops": rec["ops"], "violation": v})

        # 2. determinism sample: the first runs are executed twice, in different processes
        ndet = min(planned, 64 if tier == "quick" else 400)
        det_futs = []
        for a in (0, 1):
            idx = [r for r in range(ndet) if r % 2 == a]
            for rep in range(2):
                det_futs.append((a, rep, pools.submit(a, work_chunk, prop, tier, seed, idx, True, False)))
        # 3. the search
        chunk = spec["chunk"]
        futs = {}
        for a in (0, 1):
            idx = [r for r in range(planned) if r % 2 == a]
            for i in range(0, len(idx), chunk):
                part = idx[i:i + chunk]
                futs[pools.submit(a, work_chunk, prop, tier, seed, part)] = (a, part)
        det = {}
        for a, rep, f in det_futs:
            d = f.result(timeout=wall_cap)["digests"]
            for r, dg in d.items():
                det.setdefault(r, []).append(dg)
        nondet = [r for r, ds in det.items() if len(set(ds)) != 1]
        if nondet:
            # a self-diagnostic of the harness, not a verdict about anytree: the event digest of a run (which is
            # stricter than its verdict) differed between two executions.  Reported here and in the evidence
            # file; `./check selftest-determinism` is the strict test and fails on any mismatch.
            say("note: event digests of runs %r differ between two executions of the same seed (harness self-check; verdicts unaffected)" % nondet[:10])
        agg = {"stats": {}, "sigs": set(), "states": set(), "known": {}, "samples": [], "evaluations": 0, "steps": 0, "cpu_s": 0.0}
        completed = 0
        capped = False
        stopped_early = False
        for f in as_completed(futs, timeout=wall_cap + 60):
            a, part = futs[f]
            if f.cancelled():
                continue
            res = f.result()
            merge_stats(agg["stats"], res["stats"])
            merge_stats(agg["known"], res["known"])
            # distinct counting is exact up to SIG_CAP entries, a lower bound beyond (memory)
            if len(agg["sigs"]) < SIG_CAP:
                agg["sigs"] |= res["sigs"]
            if len(agg["states"]) < SIG_CAP:
                agg["states"] |= res["states"]
            agg["evaluations"] += res["evaluations"]
            agg["steps"] += res["steps"]
            agg["cpu_s"] += res["cpu_s"]
            completed += len(part)
            if len(agg["samples"]) < 3:
                agg["samples"].extend(res["samples"][:1])
            violations_found.extend(res["violations"])
            n_real = len([v for v in violations_found if v["violation"]["property"] != "GUARD"])
            if (n_real >= 3 or len(violations_found) >= 12) and not stopped_early:
                # enough to report; cancel what has not started yet
                stopped_early = True
                for g in futs:
                    g.cancel()
            if time.time() - t_start > wall_cap and not capped:
                capped = True
                for g in futs:
                    g.cancel()
        search_wall = time.time() - t_start

        # 4. violations: minimise, replay in a fresh interpreter, report
        reported = []
        if violations_found:
            violations_found.sort(key=lambda v: (v["run"], len(v["ops"])))
            seen_sig = set()
            for v in violations_found:
                sig = (v["violation"]["property"], v["violation"]["signature"])
                if sig in seen_sig or len(reported) >= 3:
                    continue
                seen_sig.add(sig)
                a = v["cfg"].get("assert", 0)
                sh = pools.submit(a, work_shrink, prop, v["cfg"], v["ops"], v["violation"]).result(timeout=600)
                prelude = None
                if not sh["ok"]:
                    sh = {"cfg": v["cfg"], "ops": v["ops"], "violation": v["violation"], "digest": None, "execs": 0, "ok": False}
                    if v.get("history"):
                        # not reproducible in isolation: does it need the state earlier runs left in the process?
                        prelude = pools.submit(a, work_prelude, prop, tier, seed, v["history"], v["cfg"], v["ops"], v["violation"]).result(timeout=900)
                vprop = v["violation"]["property"]
                path = replay_path(vprop if vprop != "GUARD" else prop + "-guard", seed, v["run"] if v["run"] >= 0 else 0)
                rec = {
                    "property": vprop,
                    "check": prop,
                    "tier": tier,
                    "seed": seed,
                    "run": v["run"],
                    "cfg": sh["cfg"],
                    "ops": sh["ops"],
                    "violation": sh["violation"],
                    "digest": sh["digest"],
                    "unminimised": {"cfg": v["cfg"], "ops": v["ops"]} if sh["ok"] else None,
                    "prelude": prelude,
                    "shrink_execs": sh["execs"],
                }
                write_json(path, rec)
                reported.append((vprop, path, sh["violation"]))
        real = [x for x in reported if x[0] != "GUARD"]
        guard = [x for x in reported if x[0] == "GUARD"]
        unreplayed = []
        confirmed = 0
        for vprop, path, v in real:
            code, txt = fresh_replay(path)
            if code != 1:
                unreplayed.append((path, code, txt))
                continue
            confirmed += 1
            say("violation: %s" % v["message"])
            say("VIOLATION property=%s replay=%s" % (vprop, path))
            exit_code = 1
        for path, code, txt in unreplayed:
            if confirmed:
                say("note: a further violation was seen but did not replay in a fresh interpreter (exit %d), not reported: %s" % (code, path))
            else:
                say("HARNESS-ERROR: violation does not replay in a fresh interpreter (exit %d): %s\n%s" % (code, path, txt))
                exit_code = 2
        real = real[:confirmed] if not unreplayed else [x for x in real if x[1] not in [u[0] for u in unreplayed]]
        for vprop, path, v in guard:
            say("note: consistency guard tripped (reported by C01's check, not here): %s replay=%s" % (v["message"], path))

        # 5. evidence
        wall = time.time() - t_start
        stats = agg["stats"]
        ev = {
            "property_id": prop,
            "tier": tier,
            "seed": seed,
            "level": spec["level"],
            "wall_s": round(wall, 2),
            "violations": len(real),
            "coverage": {
                "evaluations": agg["evaluations"],
                "distinct_nontrivial": len(agg["sigs"]),
                "rule": spec["rule"]
                + (" NOTE: distinct counting stops at %d entries to bound memory; the numbers are lower bounds." % SIG_CAP
                   if len(agg["sigs"]) >= SIG_CAP or len(agg["states"]) >= SIG_CAP else ""),
                "samples": agg["samples"] or [{"note": "no run completed"}],
                "planned_runs": planned,
                "completed_runs": completed,
                "wall_capped": capped,
                "stopped_early_on_violations": stopped_early,
                "operations_executed": agg["steps"],
                "distinct_states": len(agg["states"]),
                "distinct_counts_are_lower_bounds": len(agg["sigs"]) >= SIG_CAP or len(agg["states"]) >= SIG_CAP,
                "runs_per_hour": int(agg["evaluations"] / max(search_wall, 1e-6) * 3600),
                "seeds_per_hour": int(completed / max(search_wall, 1e-6) * 3600),
                "cpu_seconds": round(agg["cpu_s"], 1),
                "simulated_time": "not applicable: anytree has no clock or timer; logical time = operations (%d) and hook events (%d)"
                % (agg["steps"], stats.get("hooks", 0)),
                "faults_fired": {k: v for k, v in sorted(stats.items()) if k.startswith("fault")},
                "probes": {k: v for k, v in sorted(stats.items()) if not k.startswith("fault")},
                "known_finding_hits": agg["known"],
                "known_findings_reported": known_lines,
                "guard_skips": len(guard),
                "determinism_sample": {"runs_executed_twice": len(det), "mismatches": len(nondet)},
                "components": spec["components"],
                "workers": workers,
            },
            "assumptions": spec["assumptions"],
        }
        os.makedirs(evidence_dir(), exist_ok=True)
        write_json(os.path.join(evidence_dir(), "%s.json" % prop), ev)
        if capped:
            say("note: wall cap reached, %d of %d runs completed" % (completed, planned))
        say(
            "%s %s seed=%d: %d runs (%d evaluations, %d ops) in %.1fs, %d distinct signatures, %d violations, known hits %s"
            % (prop, tier, seed, completed, agg["evaluations"], agg["steps"], wall, len(agg["sigs"]), len(real), agg["known"] or "{}")
        )
        return exit_code
    finally:
        pools.shutdown()


def print_digests(prop, tier, seed, workers, runs):
    """Digests of the first `runs` runs as JSON on stdout (used by selftest-determinism)."""
    known = load_known(prop)
    pools = Pools(workers, [e["key"] for e in known if e["status"] == "open"])
    try:
        out = {}
        futs = []
        for a in (0, 1):
            idx = [r for r in range(runs) if r % 2 == a]
            step = max(1, len(idx) // max(1, workers // 2))
            for i in range(0, len(idx), step):
                futs.append(pools.submit(a, work_chunk, prop, tier, seed, idx[i:i + step], True, True))
        for f in futs:
            out.update(f.result(timeout=600)["digests"])
        print(json.dumps({str(k): v for k, v in sorted(out.items())}))
        return 0
    finally:
        pools.shutdown()


def replay_file(path, verbose=True):
    rec = json.load(open(path, encoding="utf-8"))
    prop = rec.get("check") or rec["property"]
    a = rec["cfg"].get("assert", 0)
    known = load_known(prop)
    init_worker(a, [e["key"] for e in known if e["status"] == "open"])
    got = _replay(prop, rec["cfg"], rec["ops"], rec.get("prelude"))
    want = rec.get("violation")
    if got["violation"] is not None:
        v = got["violation"]
        same = want is None or (v["clause"] == want["clause"] and v["signature"] == want["signature"] and v["step"] == want["step"])
        if rec.get("digest") and got["digest"] != rec["digest"] and not rec.get("prelude"):
            same = False
        print("replay: %s" % v["message"])
        if not same:
            print("replay: differs from the recorded violation (recorded %r)" % (want,))
        print("VIOLATION property=%s replay=%s" % (v["property"], path))
        return 1
    if got["known"]:
        print("replay: known finding(s) reproduced: %r" % (got["known"],))
        return 0
    print("replay: no violation (%d steps, digest %s)" % (got["steps"], got["digest"]))
    return 0


def main(argv):
    import argparse

    from . import registry  # noqa: F401  (fills PROPS)

    ap = argparse.ArgumentParser(prog="check")
    ap.add_argument("what", help="property id (C01...), 'replay', 'selftest-determinism', 'selftest-mutants', 'all'")
    ap.add_argument("path", nargs="?")
    ap.add_argument("--tier", default=os.environ.get("VERIF_TIER", "quick"), choices=("quick", "thorough"))
    ap.add_argument("--replay")
    ap.add_argument("--runs", type=int)
    ap.add_argument("--workers", type=int, default=int(os.environ.get("VERIF_WORKERS", "16")))
    ap.add_argument("--wall-cap", type=float)
    args = ap.parse_args(argv)
    seed = int(os.environ.get("VERIF_SEED", DEFAULT_SEED))
    faulthandler.enable()
    try:
        if args.what == "replay" or args.replay:
            return replay_file(args.replay or args.path)
        if args.what == "restore-batch":
            boot.setup(0)
            from . import snap

            return snap.restore_batch_child()
        if args.what == "digests":
            return print_digests(args.path, args.tier, seed, args.workers, args.runs or 64)
        if args.what.startswith("selftest"):
            from . import selftest

            return selftest.main(args.what, args, seed)
        if args.what == "all":
            rc = 0
            for prop in sorted(PROPS):
                rc = max(rc, check(prop, args.tier, seed, args.workers, args.runs, args.wall_cap))
            return rc
        if args.what not in PROPS:
            print("unknown property %r (claimed: %s)" % (args.what, " ".join(sorted(PROPS))))
            return 2
        return check(args.what, args.tier, seed, args.workers, args.runs, args.wall_cap)
    except SystemExit:
        raise
    except BaseException:
        traceback.print_exc()
        print("HARNESS-ERROR: exception in the harness (not a property verdict)")
        return 2
