"""Operation alphabet: generation (seeded, against the reference model's current
state so that interesting argument roles are likely), and execution against a
World of real node objects.  Operations are plain JSON data; node arguments
are indices."""
from .model import children_truthy, is_nn
from .world import (
    ACTIVE,
    ALL_HOOKS,
    FAMILY,
    LINK_CLASSES,
    OpGuard,
    PRE_HOOKS,
    Watchdog,
    make_node,
    nonnode_value,
)

NN_TAGS = ("int", "str", "obj", "list")
PARENT_ROLES = ("none", "same", "child", "anc", "desc", "sib", "other", "self", "any", "root")


def wchoice(rng, pairs):
    total = 0
    for _, w in pairs:
        total += w
    r = rng.random() * total
    for v, w in pairs:
        r -= w
        if r < 0:
            return v
    return pairs[-1][0]


def gen_parent_target(rng, model, n, allow_nn):
    """Pick the new parent of n by role; returns (item, role)."""
    N = len(model)
    for _ in range(4):
        role = rng.choice(PARENT_ROLES)
        if role == "none":
            return None, role
        if role == "same":
            if model.parent[n] is not None:
                return model.parent[n], role
        elif role == "child":
            if model.children[n]:
                return rng.choice(model.children[n]), role
        elif role == "anc":
            a = model.ancestors(n)
            if a:
                return rng.choice(a), role
        elif role == "desc":
            d = model.descendants(n)
            if d:
                return rng.choice(d), role
        elif role == "sib":
            p = model.parent[n]
            if p is not None and len(model.children[p]) > 1:
                return rng.choice([c for c in model.children[p] if c != n]), role
        elif role == "other":
            r = model.root(n)
            o = [i for i in range(N) if model.root(i) != r]
            if o:
                return rng.choice(o), role
        elif role == "root":
            return model.root(n), role
        elif role == "self":
            if rng.random() < 0.5:
                return n, role
        else:
            return rng.randrange(N), role
    if allow_nn and rng.random() < 0.15:
        return {"nn": rng.choice(NN_TAGS)}, "nn"
    return rng.randrange(N), "any"


def gen_children_seq(rng, model, n, allow_nn, maxlen=5):
    """Build a children sequence for n from role-typed parts."""
    N = len(model)
    xs = []
    cur = list(model.children[n])
    if len(cur) > 24 and rng.random() < 0.6:
        # wide node: re-assign (almost) all of its children, in another order
        maxlen = len(cur) + 8
    bulk = False
    if N > 40 and rng.random() < 0.15:
        # a bulk assignment in a large universe: dozens of distinct nodes from anywhere (bulk code paths, if any)
        anc = set(model.ancestors(n))
        anc.add(n)
        cands = [i for i in range(N) if i not in anc]
        if len(cands) >= 33:
            xs = rng.sample(cands, rng.randint(33, min(len(cands), 80)))
            maxlen = len(xs) + 8
            bulk = True
    mode = rng.random()
    if cur and mode < 0.7 and not bulk:
        rng.shuffle(cur) if rng.random() < 0.5 else None
        keep = [c for c in cur if rng.random() < 0.75]
        xs.extend(keep)
    # stolen / roots / descendants / arbitrary
    extra = 0 if bulk else rng.choice((0, 0, 1, 1, 2, 3))
    for _ in range(extra):
        r = rng.random()
        if r < 0.3:
            d = model.descendants(n)
            if d:
                xs.append(rng.choice(d))
                continue
        if r < 0.6:
            # someone else's child
            cands = [i for i in range(N) if model.parent[i] is not None and model.parent[i] != n]
            if cands:
                xs.append(rng.choice(cands))
                continue
        if r < 0.8:
            cands = [i for i in range(N) if model.parent[i] is None and i != n]
            if cands:
                xs.append(rng.choice(cands))
                continue
        xs.append(rng.randrange(N))
    # de-duplicate unless a duplicate is wanted
    seen = set()
    out = []
    for x in xs:
        if x not in seen:
            seen.add(x)
            out.append(x)
    xs = out[:maxlen]
    r = rng.random()
    role = "plain"
    if len(xs) > 24 and allow_nn and r < 0.3:
        xs.insert(rng.randrange(len(xs) + 1), {"nn": rng.choice(NN_TAGS)})
        role = "nn"
    elif r < 0.06 and xs:
        xs.insert(rng.randrange(len(xs) + 1), rng.choice(xs))
        role = "dup"
    elif r < 0.12:
        xs.insert(rng.randrange(len(xs) + 1), n)
        role = "self"
    elif r < 0.22:
        a = model.ancestors(n)
        if a:
            xs.insert(rng.randrange(len(xs) + 1), rng.choice(a))
            role = "anc"
    elif r < 0.27 and allow_nn:
        xs.insert(rng.randrange(len(xs) + 1), {"nn": rng.choice(NN_TAGS)})
        role = "nn"
    elif r < 0.30:
        return {"noniter": rng.choice(("int", "none", "zero"))}, "list", "noniter"
    if rng.random() < 0.5:
        rng.shuffle(xs)
    container = wchoice(rng, (("list", 5), ("tuple", 2), ("gen", 2), ("iter", 1), ("shared", 2)))
    return xs, container, role


def materialise_item(world, x):
    if x is None:
        return None
    if is_nn(x):
        return nonnode_value(x["nn"])
    return world.nodes[x]


def materialise_children(world, spec, container):
    if spec is None:
        return None
    if isinstance(spec, dict):
        tag = spec["noniter"]
        return {"int": 5, "none": None, "zero": 0}[tag]
    items = [materialise_item(world, x) for x in spec]
    if container == "tuple":
        return tuple(items)
    if container == "gen":
        return (x for x in items)
    if container == "iter":
        return iter(items)
    if container == "shared":
        # one list object per world, refilled in place and handed in again: a caller that keeps its own
        # list of children and re-assigns it after editing it (the sequence's identity says nothing)
        lst = world.__dict__.setdefault("shared_children_list", [])
        lst[:] = items
        return lst
    return items


def exec_op(world, op, guard_seconds=1.5):
    """Execute one operation on the real objects.  Returns (status, info):
    ('ok', None) or ('exc', exception object).  Watchdog propagates."""
    world.begin_op(op.get("f"))
    kind = op["op"]
    prev = ACTIVE[0]
    ACTIVE[0] = world
    try:
        with OpGuard(guard_seconds + 0.02 * len(world.nodes), getattr(world, "rlimit", None)):
            if kind == "parent":
                world.nodes[op["n"]].parent = materialise_item(world, op["p"])
            elif kind == "children":
                world.nodes[op["n"]].children = materialise_children(world, op["xs"], op.get("c", "list"))
            elif kind == "del":
                del world.nodes[op["n"]].children
            elif kind == "new":
                clsname = world.class_for(op["cls"])
                world.new(
                    clsname,
                    op["name"],
                    attrs=op.get("attrs"),
                    target=materialise_item(world, op.get("target")),
                    parent=materialise_item(world, op.get("p")),
                    children=materialise_children(world, op.get("xs"), op.get("c", "list")),
                )
            elif kind == "setattr":
                setattr(world.nodes[op["n"]], op["k"], op["v"])
            elif kind == "delattr":
                delattr(world.nodes[op["n"]], op["k"])
            else:
                raise ValueError("unknown op %r" % (kind,))
        return "ok", None
    except Watchdog:
        raise
    except KeyboardInterrupt:
        raise
    except BaseException as exc:  # noqa: B902 - SimCancel is a BaseException on purpose
        return "exc", exc
    finally:
        ACTIVE[0] = prev


# -- fault plans ---------------------------------------------------------------------


def gen_fault(rng, profile, trace_len, hooks, excs, trace=None):
    """Fault spec for one operation, or None.

    profile 'once':    one position inside the predicted hook sequence
            'multi':   2-3 positions, the later ones usually beyond the first
                       (they land in the rollback path of the children setter)
            'persist': every invocation of a drawn hook kind on a drawn node set
    A 'once' entry is [k, exc, kinds]: it fires at the first invocation with
    index >= k whose kind is in `kinds` (None = any).
    """
    kinds = None if tuple(hooks) == ALL_HOOKS else list(hooks)
    if profile == "once":
        if trace_len <= 0:
            return None
        if trace is not None:
            cand = [k for k, ev in enumerate(trace) if ev[0] in hooks]
            if not cand:
                return None
            k = rng.choice(cand)
        else:
            k = rng.randrange(trace_len)
        return {"once": [[k, rng.choice(excs), kinds]]}
    if profile == "multi":
        if trace_len <= 0:
            return None
        k1 = rng.randrange(trace_len)
        ks = {k1}
        for _ in range(rng.choice((1, 1, 2))):
            ks.add(k1 + 1 + rng.randrange(8))
        return {"once": [[k, rng.choice(excs), kinds] for k in sorted(ks)]}
    if profile == "persist":
        hk = rng.choice(hooks)
        hk2 = [hk]
        if rng.random() < 0.3:
            hk2.append(rng.choice(hooks))
        return {"persist": [[h, None, rng.choice(excs)] for h in sorted(set(hk2))]}
    return None


__all__ = [
    "ALL_HOOKS",
    "PRE_HOOKS",
    "FAMILY",
    "LINK_CLASSES",
    "children_truthy",
    "exec_op",
    "gen_children_seq",
    "gen_fault",
    "gen_parent_target",
    "wchoice",
]
