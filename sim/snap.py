"""C19: pickle (every protocol) and deepcopy give an independent, consistent,
isomorphic tree.

The snapshot is taken of states *reached by histories* - in 'lazy' runs the
universe is never observed before the snapshot, because reading `.children`
creates the lazily-absent bookkeeping attribute and would erase exactly the
hidden-state differences (never-had-children vs lost-its-children) that
serialisation sees.  Pickle bytes are the only thing that survives into a fresh
interpreter: thorough runs also restore there (another PYTHONHASHSEED).  After
the restore the history continues on the copy only, then on the original only;
each side must stay as it was while the other one is mutated.
"""
import copy
import hashlib
import pickle

from . import invariants, struct
from .model import ForestModel
from .ops import exec_op
from .struct import Result, Violation, apply_op, expect_of, gen_op, stable_hash
from .world import ACTIVE, FAMILY, LINK_CLASSES, Watchdog, World

KNOWN_OPEN = set()
BOOKKEEPING = ("_NodeMixin__parent", "_NodeMixin__children", "_LightNodeMixin__parent", "_LightNodeMixin__children")
SLOT_ATTRS = ("name", "foo", "bar", "extra", "label")

MENUS = (
    ("HNode",),
    ("HAny",),
    ("HMix",),
    ("HNode", "HAny", "HMix"),
    ("HNode", "HSym"),
    ("HNode", "HSym", "HSymMix"),
    ("HAny", "HSym"),
    ("HLight",),
    ("HLightDict",),
    ("HLight", "HLightDict"),
    ("HLight", "HLightSub"),
    ("HLightSub",),
    ("HLight", "HLightStr"),
    ("HMixSlot",),
    ("HMixSlot", "HNode"),
    ("PNode",),
    ("PAny",),
    ("PNode", "PSym"),
    ("PNode", "PAny", "PSym"),
    ("HNodeBag", "HNode"),
    ("HNodeEq",),
    ("HNodeNo",),  # always falsy nodes
    ("HNodeNo", "HNode", "HSym"),
    ("HLightNo", "HLight"),
    ("HLightBag",),
    ("HMixEq",),
    ("HLightEq",),
)


IDENTITY_HASH = ("HNode", "HAny", "HMix", "HLightDict", "PNode", "PAny", "HNodeBag", "HNodeNo", "HMixSlot", "HLight", "HLightSub", "HLightStr", "HLightBag", "HLightNo")


def gen_cfg(rng, prop, tier):
    cfg = struct.gen_cfg(rng, "C02", tier, allow_big=False)
    cfg["prop"] = "C19"
    cfg["odd_names"] = False
    menu = rng.choice(MENUS)
    cfg["menu"] = list(menu)
    cfg["family"] = FAMILY[menu[0]]
    n = len(cfg["classes"])
    classes, targets = [], []
    for i in range(n):
        c = rng.choice(menu)
        if c in LINK_CLASSES and i == 0:
            c = menu[0]
        classes.append(c)
        targets.append(rng.randrange(i) if c in LINK_CLASSES else None)
    cfg["classes"], cfg["targets"] = classes, targets
    cfg["allow_nn"] = False
    cfg["lazy"] = rng.random() < 0.5
    cfg["profile"] = "none" if cfg["lazy"] else rng.choice(("none", "once"))
    cfg["hooks"] = list(struct.ALL_HOOKS)
    cfg["excs"] = ["SimFault", "SimCancel"]
    cfg["p_fault"] = 0.3 if cfg["profile"] != "none" else 0.0
    cfg["L"] = rng.randint(0, 10)
    cfg["L2"] = rng.randint(0, 4)
    cfg["L3"] = rng.randint(0, 4)
    lo = 2 if cfg["family"] == "light" or "HMixSlot" in menu else 0  # Python itself cannot pickle __slots__ classes with protocols 0 and 1
    cfg["methods"] = ["pickle%d" % p for p in range(lo, pickle.HIGHEST_PROTOCOL + 1)] + ["deepcopy"]
    cfg["fresh"] = False
    # some nodes carry an immutable container holding another node and a list: the copy must reach the
    # copied node through it and must not share the list
    cfg["refdict"] = rng.random() < 0.5
    cfg["refs"] = [
        (rng.randrange(n) if (FAMILY[c] == "node" or c == "HLightDict") and c not in LINK_CLASSES and rng.random() < 0.15 else None)
        for c in classes
    ]
    return cfg


def brief_cfg(cfg):
    b = struct.brief_cfg(cfg)
    b["lazy"] = cfg.get("lazy")
    return b


def attrs_of(obj):
    """Public data attributes of a node, without touching .children/.parent."""
    out = {}
    d = getattr(obj, "__dict__", None)
    if d is not None:
        for k, v in d.items():
            # the mixins' own name-mangled attributes are bookkeeping (an implementation may add more of them)
            if k not in BOOKKEEPING and not k.startswith(("_NodeMixin__", "_LightNodeMixin__", "_SymlinkNodeMixin__")) and k != "target" and k != "ref":
                out[k] = v
    for k in SLOT_ATTRS:
        if k not in out:
            try:
                out[k] = object.__getattribute__(obj, k)
            except AttributeError:
                pass
    return out


def reach(model, targets, entry, refs=None):
    """Indices reachable from entry over parent/children/target edges, in a
    deterministic discovery order (parent, children in order, target)."""
    order = [entry]
    seen = {entry}
    i = 0
    while i < len(order):
        k = order[i]
        i += 1
        nxt = []
        if model.parent[k] is not None:
            nxt.append(model.parent[k])
        nxt.extend(model.children[k])
        if targets[k] is not None:
            nxt.append(targets[k])
        if refs is not None and k < len(refs) and refs[k] is not None:
            nxt.append(refs[k])
        for x in nxt:
            if x not in seen:
                seen.add(x)
                order.append(x)
    return order


def match_copy(step, op, world, model, targets, entry, copy_entry, refs=None):
    """Walk original (by model) and copy (by real attributes) simultaneously.
    Returns the list of copy objects in reach order, or raises Violation."""
    order = reach(model, targets, entry, refs)
    obj_of = {entry: copy_entry}
    idx_of = {id(copy_entry): entry}
    limit = 4 * len(order) + 8

    def bind(i, obj, how):
        if obj is None:
            raise Violation("C19", "shape", step, "shape:" + op["method"][:6], "step %d %s: copy of node %d has no %s" % (step, op, i, how))
        if i in obj_of:
            if obj_of[i] is not obj:
                raise Violation("C19", "shape", step, "shape:" + op["method"][:6], "step %d %s: node %d is copied twice (%s)" % (step, op, i, how))
            return
        if id(obj) in idx_of:
            raise Violation(
                "C19", "shape", step, "shape:" + op["method"][:6],
                "step %d %s: one copied object stands for nodes %d and %d (%s)" % (step, op, idx_of[id(obj)], i, how),
            )
        obj_of[i] = obj
        idx_of[id(obj)] = i

    for i in order:
        if len(obj_of) > limit:
            break
        c = obj_of.get(i)
        if c is None:
            raise Violation("C19", "shape", step, "shape:" + op["method"][:6], "step %d %s: node %d has no counterpart in the copy" % (step, op, i))
        orig = world.nodes[i]
        if type(c) is not type(orig):
            raise Violation("C19", "class", step, "class:" + op["method"][:6], "step %d %s: copy of node %d is a %s, original a %s" % (step, op, i, type(c).__name__, type(orig).__name__))
        if world.index(c) == i or isinstance(world.index(c), int):
            raise Violation("C19", "shared", step, "shared:" + op["method"][:6], "step %d %s: the copy contains the original node object %r" % (step, op, world.index(c)))
        a0, a1 = attrs_of(orig), attrs_of(c)
        if a0 != a1:
            raise Violation("C19", "attrs", step, "attrs:" + op["method"][:6], "step %d %s: node %d attributes %r, copy has %r" % (step, op, i, a0, a1))
        p = model.parent[i]
        cp = c.parent
        if p is None:
            if cp is not None:
                raise Violation("C19", "shape", step, "shape:" + op["method"][:6], "step %d %s: node %d is a root, its copy has a parent" % (step, op, i))
        else:
            bind(p, cp, "parent of %d" % i)
        kids = c.children
        if len(kids) != len(model.children[i]):
            raise Violation(
                "C19", "shape", step, "shape:" + op["method"][:6],
                "step %d %s: node %d has %d children, its copy %d" % (step, op, i, len(model.children[i]), len(kids)),
            )
        for j, k in enumerate(model.children[i]):
            bind(k, kids[j], "child %d of %d" % (j, i))
        if targets[i] is not None:
            bind(targets[i], object.__getattribute__(c, "target"), "target of %d" % i)
        if refs is not None and i < len(refs) and refs[i] is not None:
            r0 = orig.__dict__["ref"]
            r1 = c.__dict__.get("ref")
            if type(r1) is tuple and len(r1) == 3 and len(r0) == 3:
                d1 = r1[2]
                if type(d1) is not dict or len(d1) != 1 or next(iter(d1)) is not r1[0] or next(iter(d1.values())) != i:
                    raise Violation("C19", "attrs", step, "attrs-dict:" + op["method"][:6],
                                    "step %d %s: the dictionary keyed by a node inside node %d's attribute does not come back keyed by the copied node" % (step, op, i))
                r1 = r1[:2]
            if type(r1) is not tuple or len(r1) != 2 or r1[1] != r0[1]:
                raise Violation("C19", "attrs", step, "attrs:" + op["method"][:6], "step %d %s: node %d attribute ref is %r in the copy" % (step, op, i, type(r1).__name__))
            if r1[1] is r0[1]:
                raise Violation("C19", "shared", step, "shared-value:" + op["method"][:6],
                                "step %d %s: the list inside node %d's tuple attribute is the same object in copy and original" % (step, op, i))
            bind(refs[i], r1[0], "node referenced by the tuple attribute of %d" % i)
    return order, [obj_of[i] for i in order]


def take_snapshot(obj, method):
    if method == "deepcopy":
        return None, copy.deepcopy(obj)
    proto = int(method[6:])
    data = pickle.dumps(obj, protocol=proto)
    return data, pickle.loads(data)


def describe(model, targets, attrs, classes, entry, refs=None):
    """Canonical description of the reachable closure, in reach order (used for
    the fresh-interpreter restore)."""
    order = reach(model, targets, entry, refs)
    pos = {k: j for j, k in enumerate(order)}
    return [
        [
            classes[k],
            sorted((a, repr(v)) for a, v in attrs[k].items()),
            None if model.parent[k] is None else pos[model.parent[k]],
            [pos[c] for c in model.children[k]],
            None if targets[k] is None else pos[targets[k]],
            None if refs is None or k >= len(refs) or refs[k] is None else pos[refs[k]],
        ]
        for k in order
    ]


def describe_real(entry_obj, limit=200):
    """The same description computed from real objects only."""
    order = [entry_obj]
    pos = {id(entry_obj): 0}
    i = 0
    while i < len(order) and len(order) < limit:
        c = order[i]
        i += 1
        nxt = []
        if c.parent is not None:
            nxt.append(c.parent)
        nxt.extend(c.children)
        t = getattr(c, "__dict__", {}).get("target")
        if t is not None:
            nxt.append(t)
        rf = getattr(c, "__dict__", {}).get("ref")
        if rf is not None:
            nxt.append(rf[0])
        for x in nxt:
            if id(x) not in pos:
                pos[id(x)] = len(order)
                order.append(x)
    out = []
    for c in order:
        t = getattr(c, "__dict__", {}).get("target")
        out.append(
            [
                type(c).__name__,
                sorted((a, repr(v)) for a, v in attrs_of(c).items()),
                None if c.parent is None else pos[id(c.parent)],
                [pos[id(k)] for k in c.children],
                None if t is None else pos[id(t)],
                None if getattr(c, "__dict__", {}).get("ref") is None else pos[id(c.__dict__["ref"][0])],
            ]
        )
    return out


def fresh_check(items):
    """Unpickle each (bytes, expected description) in a fresh interpreter started
    with another PYTHONHASHSEED; returns one message (or None) per item."""
    import os
    import subprocess
    import sys

    from . import boot

    env = dict(os.environ)
    env["PYTHONHASHSEED"] = "4242"
    env["ANYTREE_ASSERTIONS"] = "0"
    payload = pickle.dumps([(d, desc) for d, desc in items], protocol=4)
    p = subprocess.run(
        [sys.executable, "-B", os.path.join(boot.VERIF_DIR, "check"), "restore-batch"],
        input=payload, stdout=subprocess.PIPE, stderr=subprocess.PIPE, env=env, timeout=300, cwd=boot.VERIF_DIR,
    )
    if p.returncode != 0:
        raise RuntimeError("fresh-interpreter restore failed: %s" % p.stderr.decode("utf-8", "replace")[-2000:])
    return pickle.loads(p.stdout)


def restore_batch_child():
    import sys

    from . import boot

    boot.setup(0)
    from . import world  # noqa: F401  (the node classes the pickles refer to)

    items = pickle.loads(sys.stdin.buffer.read())
    out = []
    for data, desc in items:
        try:
            obj = pickle.loads(data)
            got = describe_real(obj)
            msg = None if got == desc else "restored %r, pickled %r" % (got, desc)
            if msg is None:
                msg = mutate_restored(obj)
            out.append(msg)
        except Exception as exc:  # noqa: BLE001
            out.append("unpickling raised %s: %s" % (type(exc).__name__, exc))
    sys.stdout.buffer.write(pickle.dumps(out, protocol=4))
    sys.stdout.buffer.flush()
    return 0


def mutate_restored(obj):
    """In the fresh interpreter: detach and re-attach a leaf a number of times and compare the
    recomputed navigation values of the root with the harness's own walk (state that a node carried
    over from the other process must not survive a mutation here)."""
    root = obj
    guard = 0
    while root.parent is not None and guard < 10000:
        root = root.parent
        guard += 1

    def walk(r):
        out, stack = [], [(r, 0)]
        deepest = 0
        while stack:
            n, d = stack.pop()
            out.append(n)
            deepest = max(deepest, d)
            for c in reversed(n.children):
                stack.append((c, d + 1))
        return out, deepest

    for round_ in range(24):
        nodes, deepest = walk(root)
        if root.size != len(nodes) or root.height != deepest or len(root.descendants) != len(nodes) - 1 or len(root.leaves) != sum(1 for n in nodes if not n.children):
            return "after %d mutations in the fresh interpreter: root.size=%r height=%r, the links give %d nodes, height %d" % (
                round_, root.size, root.height, len(nodes), deepest)
        leaves = [n for n in nodes if not n.children and n.parent is not None]
        if not leaves:
            return None
        leaf = leaves[round_ % len(leaves)]
        par = leaf.parent
        leaf.parent = None
        nodes2, deepest2 = walk(root)
        if root.size != len(nodes2) or root.height != deepest2:
            return "after detaching a leaf in the fresh interpreter: root.size=%r height=%r, the links give %d nodes, height %d" % (
                root.size, root.height, len(nodes2), deepest2)
        leaf.parent = par
    return None


def post_chunk(pending, tier):
    """Fresh-interpreter restores, batched per chunk."""
    if tier != "thorough" and len(pending) > 40:
        pending = pending[:: max(1, len(pending) // 40)]
    items, owners = [], []
    for r, cfg, ops, pickles in pending:
        for data, desc in pickles:
            items.append((data, desc))
            owners.append((r, cfg, ops))
    if not items:
        return [], {}
    msgs = fresh_check(items)
    viols = []
    for (r, cfg, ops), msg in zip(owners, msgs):
        if msg is not None:
            viols.append(
                {
                    "run": r,
                    "cfg": dict(cfg, fresh=True),
                    "ops": ops,
                    "violation": {
                        "property": "C19",
                        "clause": "fresh-restore",
                        "step": None,
                        "signature": "fresh-restore",
                        "message": "restoring the pickle in a fresh interpreter: " + msg,
                    },
                }
            )
    return viols, {"fresh_process_restores": len(items), "fresh_process_batches": 1}


def run(cfg, ops=None, rng=None):
    prop = "C19"
    res = Result()
    res.pickles = []
    world, model = struct.build_world(cfg)
    targets = list(cfg["targets"])
    classes = list(cfg["classes"])
    for i, nd in enumerate(world.nodes):
        # ordinary user attributes with unlucky names (anytree once kept its link in `_parent`)
        if i % 3 == 1 and hasattr(nd, "__dict__") and classes[i] not in LINK_CLASSES:
            nd._parent = i
            nd._children = [i]
    refs = list(cfg.get("refs") or [None] * len(classes))
    for i, j in enumerate(refs):
        if j is not None:
            if cfg.get("refdict") and classes[j] in IDENTITY_HASH:
                # ... and a dictionary keyed by that node (nodes hash by identity unless the user's class says otherwise)
                world.nodes[i].ref = (world.nodes[j], [i, j], {world.nodes[j]: i})
            else:
                world.nodes[i].ref = (world.nodes[j], [i, j])
    h = hashlib.blake2b(digest_size=16)
    h.update(repr(sorted(cfg.items())).encode())
    replay = ops is not None
    lazy = cfg.get("lazy", False)
    copy_world = None
    copy_model = None
    copy_map = None
    plan = None
    if not replay:
        # phases: 1 history on the original, snapshot, 2 on the copy, 3 on the original
        plan = ["A"] * cfg["L"] + ["S"] + ["B"] * cfg["L2"] + ["A2"] * cfg["L3"]
    try:
        step = 0
        while True:
            if replay:
                if step >= len(ops):
                    break
                op = ops[step]
            else:
                if step >= len(plan):
                    break
                ph = plan[step]
                if ph == "S":
                    op = {"op": "snapshot", "n": rng.randrange(len(model)), "method": rng.choice(cfg["methods"])}
                    if rng.random() < 0.4:
                        op["ro"] = True  # a read-only tree: every notification hook raises while the copy is taken
                else:
                    side = "B" if ph == "B" else "A"
                    m = copy_model if side == "B" else model
                    if m is None or len(m) == 0:
                        step += 1
                        plan[step - 1] = "skip"
                        res.ops.append({"op": "skip"})
                        continue
                    op = None
                    for _ in range(6):
                        cand = gen_op(rng, m, dict(cfg, w=dict(cfg["w"], new=0 if side == "B" else cfg["w"]["new"])), step)
                        if lazy and ph == "A" and (expect_of(m, cand).exc is not None or cand.get("f")):
                            continue
                        op = cand
                        break
                    if op is None:
                        op = {"op": "parent", "n": 0, "p": None}
                    op["side"] = side
                res.ops.append(op)
            kind = op["op"]
            if kind == "skip":
                step += 1
                continue
            if kind == "snapshot":
                entry = op["n"]
                if entry >= len(model):
                    step += 1
                    continue
                # attribute values are read without touching .parent/.children
                attrs = [attrs_of(nd) for nd in world.nodes]
                if not lazy:
                    # an ordinary program has usually looked at its tree before it saves it
                    for nd in world.nodes[:: max(1, len(world.nodes) // 4)]:
                        nd.size, nd.height, nd.depth, nd.path, nd.leaves
                if op.get("ro"):
                    # copying is not a tree modification: a class whose hooks veto every change (the documented
                    # read-only pattern) can still be copied - no hook may run, on the originals or on the copies
                    world.begin_op({"persist": [[None, None, "SimRuntime"]]})
                    ACTIVE[0] = world
                    res.bump("snapshots_of_read_only_trees")
                    res.bump("fault_persist_read_only_snapshot")
                try:
                    try:
                        data, centry = take_snapshot(world.nodes[entry], op["method"])
                    finally:
                        ACTIVE[0] = None
                        world.begin_op(None)
                except RecursionError:
                    res.bump("snapshot_recursion")
                    step += 1
                    continue
                except Exception as exc:  # noqa: BLE001
                    raise Violation(
                        prop, "snapshot-raises", step, "snapshot-raises:%s:%s" % (op["method"][:6], type(exc).__name__),
                        "step %d %s of a %s: %s: %s" % (step, op, type(world.nodes[entry]).__name__, type(exc).__name__, exc),
                    )
                res.bump("snapshots")
                res.bump("snap_" + op["method"])
                res.bump("snap_lazy" if lazy else "snap_observed")
                order, objs = match_copy(step, op, world, model, targets, entry, centry, refs)
                if data is not None:
                    desc = describe(model, targets, attrs, [type(n).__name__ for n in world.nodes], entry, refs)
                    if cfg.get("fresh"):
                        msg = fresh_check([(data, desc)])[0]
                        res.bump("fresh_process_restores")
                        if msg is not None:
                            raise Violation(prop, "fresh-restore", None, "fresh-restore", "restoring the pickle in a fresh interpreter: " + msg)
                    elif len(res.pickles) < 4:
                        res.pickles.append((data, desc))
                # the copy becomes a universe of its own (indices = reach order)
                copy_world = World()
                for o in objs:
                    copy_world.register(o)
                pos = {k: j for j, k in enumerate(order)}
                copy_model = ForestModel()
                for k in order:
                    copy_model.add(model.family[k])
                for k in order:
                    j = pos[k]
                    copy_model.parent[j] = None if model.parent[k] is None else pos[model.parent[k]]
                    copy_model.children[j] = [pos[c] for c in model.children[k]]
                copy_map = order
                bad = invariants.check_forest(copy_world)
                if bad:
                    raise Violation(prop, "copy-" + bad[0][0], step, "copy-consistency:" + bad[0][0], "step %d %s: the copy is not a consistent forest: %s" % (step, op, bad[0][1]))
                snap_c = copy_world.snapshot()
                if snap_c != copy_model.snapshot():
                    raise Violation(prop, "shape", step, "shape:" + op["method"][:6], "step %d %s: copy structure %r, original %r" % (step, op, snap_c, copy_model.snapshot()))
                # identity-disjointness over the whole universe
                ids = set(id(n) for n in world.nodes)
                for o in objs:
                    if id(o) in ids:
                        raise Violation(prop, "shared", step, "shared:" + op["method"][:6], "step %d %s: copy and original share a node object" % (step, op))
                res.sigs.add(stable_hash(("snap", struct.shape_sig(model, {entry: "E"}), op["method"], tuple(classes[k] for k in order), lazy)))
                h.update(repr((step, "snapshot", op["method"], snap_c)).encode())
                step += 1
                continue
            # structural op on one side
            side = op.get("side", "A")
            w, m = (copy_world, copy_model) if side == "B" else (world, model)
            if w is None:
                step += 1
                continue
            other_w = world if side == "B" else copy_world
            before_other = other_w.snapshot() if (other_w is not None and (copy_world is not None)) else None
            # indices out of range (possible after shrinking): skip
            if not _op_in_range(op, len(m)):
                step += 1
                continue
            exp = expect_of(m, op)
            try:
                status, exc = exec_op(w, op)
            except Watchdog as wd:
                raise Violation("GUARD", "hang", step, "hang", str(wd))
            res.steps += 1
            res.bump("ops")
            res.bump("ops_on_copy" if side == "B" else "ops_on_original")
            fired = w.fired
            for f in fired:
                res.bump("fault_" + f[4])
                res.bump("fault@" + f[1])
            newidx = None
            if kind == "new":
                newidx = m.add(FAMILY[op["cls"]])
                if side == "A":
                    targets.append(op.get("target"))
                    classes.append(op["cls"])
                    refs.append(None)
            excname = type(exc).__name__ if exc is not None else None
            h.update(repr((step, side, struct.op_brief(op), excname)).encode())
            res.sigs.add(stable_hash((side, struct.shape_sig(m, struct.op_marks(op)), struct.op_brief(op), excname)))
            observe = not (lazy and side == "A" and copy_world is None)
            if status == "ok":
                apply_op(m, op, newidx)
            if not observe:
                if status != "ok":
                    raise Violation("GUARD", "lazy-refusal", step, "lazy-refusal", "step %d %s refused in a lazy run: %r" % (step, op, exc))
                step += 1
                continue
            bad = invariants.check_forest(w)
            if bad:
                raise Violation(
                    prop if side == "B" else "GUARD",
                    "copy-" + bad[0][0],
                    step,
                    "copy-consistency:" + bad[0][0],
                    "step %d %s: %s is not a consistent forest: %s" % (step, op, "the copy" if side == "B" else "the original", bad[0][1]),
                )
            post = w.snapshot()
            if side == "B" and not fired:
                # a healthy copy obeys the same rules as any tree
                if status == "ok" and (exp.exc is not None or post != m.snapshot()):
                    raise Violation(prop, "copy-mutation", step, "copy-mutation:" + kind, "step %d %s on the copy: structure %r, specified %r (%s)" % (step, op, post, m.snapshot(), exp.exc))
                if status == "exc" and (exp.exc is None or exp.exc != excname):
                    raise Violation(prop, "copy-mutation", step, "copy-mutation:" + kind, "step %d %s on the copy raised %s: %s, specified %s" % (step, op, excname, exc, exp.exc or "success"))
            if post != m.snapshot():
                m.load(post)
            if before_other is not None:
                after_other = other_w.snapshot()
                res.bump("independence_checks")
                if after_other != before_other:
                    raise Violation(
                        prop,
                        "independence",
                        step,
                        "independence:" + side,
                        "step %d %s on %s changed %s: %r -> %r"
                        % (step, op, "the copy" if side == "B" else "the original", "the original" if side == "B" else "the copy",
                           struct.diff_snap(before_other, after_other)[0], struct.diff_snap(before_other, after_other)[1]),
                    )
            step += 1
    except Violation as v:
        res.violation = v
    res.digest = h.hexdigest()
    res.bump("runs")
    return res


def _op_in_range(op, n):
    for key in ("n", "p", "target"):
        v = op.get(key)
        if isinstance(v, int) and v >= n:
            return False
    xs = op.get("xs")
    if isinstance(xs, list):
        for x in xs:
            if isinstance(x, int) and x >= n:
                return False
    return True


def simplify_op(op):
    if op["op"] in ("snapshot", "skip"):
        return
    for alt in struct.simplify_op(op):
        yield dict(alt, side=op.get("side", "A"))


_ = copy_map = None


def sweep(cfg, res, rng, tier):
    """Entry/method enumeration on a sampled history: the phase-1 history is
    re-executed and a snapshot taken from *every* node by *every* method."""
    ops = res.ops
    cut = None
    for i, o in enumerate(ops):
        if o["op"] == "snapshot":
            cut = i
            break
    if cut is None:
        return
    n = len(cfg["classes"]) + sum(1 for o in ops[:cut] if o["op"] == "new")
    limit = 8 if tier == "thorough" else 5
    if n > limit or rng.random() > (0.5 if tier == "thorough" else 0.15):
        return
    for entry in range(n):
        for method in cfg["methods"]:
            yield cfg, ops[:cut] + [{"op": "snapshot", "n": entry, "method": method}]
