"""The simulated universe: real anytree node objects whose notification hooks
are routed to the simulator, which records them and decides, from the fault
plan of the operation in flight, whether they raise.

Import only after sim.boot.setup().  All of anytree runs as real code; the
classes below are what a user of the library writes (subclasses overriding the
documented hook methods).
"""
import signal
import sys

from anytree import AnyNode, LightNodeMixin, Node, NodeMixin, SymlinkNode, SymlinkNodeMixin, TreeError

ACTIVE = [None]  # the world that receives hook calls right now

PARENT_HOOKS = ("pre_detach", "post_detach", "pre_attach", "post_attach")
CHILDREN_HOOKS = (
    "pre_detach_children",
    "post_detach_children",
    "pre_attach_children",
    "post_attach_children",
)
ALL_HOOKS = PARENT_HOOKS + CHILDREN_HOOKS
PRE_HOOKS = ("pre_detach", "pre_attach", "pre_detach_children", "pre_attach_children")


class SimFault(Exception):
    """Injected failure of a user hook (what a validating/read-only class raises)."""


class SimRuntime(RuntimeError):
    """Injected failure, RuntimeError flavoured."""


class SimCancel(BaseException):
    """Injected cancellation: not an Exception, so `except Exception` does not see it."""


class SimAssert(AssertionError):
    """A user hook vetoing with `assert` (as the hooks in anytree's own tests do)."""


class SimLookup(KeyError):
    """Injected failure, LookupError flavoured."""


class SimStop(StopIteration):
    """Injected failure: a StopIteration escaping from user code."""


class SimTreeError(TreeError):
    """A validating class refusing with the library's own exception type."""


EXC = {
    "SimFault": SimFault,
    "SimRuntime": SimRuntime,
    "SimCancel": SimCancel,
    "SimAssert": SimAssert,
    "SimLookup": SimLookup,
    "SimStop": SimStop,
    "SimTreeError": SimTreeError,
}


class Watchdog(BaseException):
    """Raised by the SIGALRM handler when one library call takes too long."""


def _hook(node, kind, arg):
    w = ACTIVE[0]
    if w is not None:
        w.on_hook(node, kind, arg)
        return w.hook_ret  # hooks are notifications: whatever they return must not matter
    return None


def _call_super():
    w = ACTIVE[0]
    return w is not None and w.call_super


class _Hooks(object):
    """The user's hook overrides.  In half of the runs they also call the library's own implementation
    (`super()`), as a careful subclass does; in the other half they do not, as most subclasses do - so the
    checks see both a library hook body that has become load-bearing and one that refuses or changes something."""

    __slots__ = ()

    def _pre_detach(self, parent):
        r = _hook(self, "pre_detach", parent)
        if _call_super():
            super(_Hooks, self)._pre_detach(parent)
        return r

    def _post_detach(self, parent):
        r = _hook(self, "post_detach", parent)
        if _call_super():
            super(_Hooks, self)._post_detach(parent)
        return r

    def _pre_attach(self, parent):
        r = _hook(self, "pre_attach", parent)
        if _call_super():
            super(_Hooks, self)._pre_attach(parent)
        return r

    def _post_attach(self, parent):
        r = _hook(self, "post_attach", parent)
        if _call_super():
            super(_Hooks, self)._post_attach(parent)
        return r

    def _pre_detach_children(self, children):
        r = _hook(self, "pre_detach_children", children)
        if _call_super():
            super(_Hooks, self)._pre_detach_children(children)
        return r

    def _post_detach_children(self, children):
        r = _hook(self, "post_detach_children", children)
        if _call_super():
            super(_Hooks, self)._post_detach_children(children)
        return r

    def _pre_attach_children(self, children):
        r = _hook(self, "pre_attach_children", children)
        if _call_super():
            super(_Hooks, self)._pre_attach_children(children)
        return r

    def _post_attach_children(self, children):
        r = _hook(self, "post_attach_children", children)
        if _call_super():
            super(_Hooks, self)._post_attach_children(children)
        return r


class HNode(_Hooks, Node):
    pass


class HNodeRO(HNode):
    """A node class with a read-only property: assigning `ro` must fail, also through a link."""

    @property
    def ro(self):
        return 7


class HNodeInst(Node):
    """A plain Node class: its hooks are given to each *instance* as attributes
    (e.g. Node("n", _post_attach=callback)), not overridden in the class."""


def _instance_hooks(obj):
    import functools

    for kind in ALL_HOOKS:
        obj.__dict__["_" + kind] = functools.partial(_hook, obj, kind)


class HAny(_Hooks, AnyNode):
    pass


class HMix(_Hooks, NodeMixin):
    def __init__(self, name, parent=None, children=None, **kwargs):
        self.__dict__.update(kwargs)
        self.name = name
        self.parent = parent
        if children:
            self.children = children

    def __repr__(self):
        return "HMix(%r)" % (self.name,)


class HSym(_Hooks, SymlinkNode):
    pass


class HSymMix(_Hooks, SymlinkNodeMixin):
    def __init__(self, target, parent=None, children=None):
        self.target = target
        self.parent = parent
        if children:
            self.children = children

    def __repr__(self):
        return "HSymMix(%r)" % (self.target,)


class HSymProp(_Hooks, SymlinkNodeMixin):
    """A mixin subclass whose `target` is a property (e.g. a lazily resolved link)."""

    def __init__(self, target, parent=None, children=None):
        self.__dict__["_tgt"] = target
        self.parent = parent
        if children:
            self.children = children

    @property
    def target(self):
        return self.__dict__["_tgt"]

    @target.setter
    def target(self, value):
        self.__dict__["_tgt"] = value

    def __repr__(self):
        return "HSymProp(%r)" % (self.target,)


class HLight(_Hooks, LightNodeMixin):
    __slots__ = ("name", "foo", "bar")

    def __init__(self, name, parent=None, children=None, **kwargs):
        for key in sorted(kwargs):
            setattr(self, key, kwargs[key])
        self.name = name
        self.parent = parent
        if children:
            self.children = children

    def __repr__(self):
        return "HLight(%r)" % (self.name,)


class HLightDict(HLight):
    # no __slots__: instances have a __dict__ in addition to the inherited slots
    def __repr__(self):
        return "HLightDict(%r)" % (self.name,)


def _eqkey(node):
    return sum(map(ord, str(node.name))) % 2


class HNodeEq(HNode):
    """What users write: a node class with value-based equality.  Many distinct
    nodes compare (and hash) equal; the library must still treat them as distinct."""

    def __eq__(self, other):
        return isinstance(other, HNodeEq) and _eqkey(self) == _eqkey(other)

    def __ne__(self, other):
        return not self.__eq__(other)

    def __hash__(self):
        return _eqkey(self)


class HLightEq(HLight):
    __slots__ = ()

    def __eq__(self, other):
        return isinstance(other, HLightEq) and _eqkey(self) == _eqkey(other)

    def __ne__(self, other):
        return not self.__eq__(other)

    def __hash__(self):
        return _eqkey(self)

    def __repr__(self):
        return "HLightEq(%r)" % (self.name,)


class HNodeNo(HNode):
    """A node class whose instances are always falsy (e.g. 'no payload yet')."""

    def __bool__(self):
        return False


class HLightNo(HLight):
    __slots__ = ()

    def __bool__(self):
        return False

    def __repr__(self):
        return "HLightNo(%r)" % (self.name,)


class HMixEq(HMix):
    """NodeMixin-based twin of HLightEq (C18 with value-equality classes)."""

    def __eq__(self, other):
        return isinstance(other, HMixEq) and _eqkey(self) == _eqkey(other)

    def __ne__(self, other):
        return not self.__eq__(other)

    def __hash__(self):
        return _eqkey(self)

    def __repr__(self):
        return "HMixEq(%r)" % (self.name,)


class _Bag(object):
    """What users write: a node that is also a container of its children -
    len(), iteration, membership and indexing go to the children, and a leaf is
    falsy.  The library must still treat every such node as a node."""

    __slots__ = ()

    def __len__(self):
        return len(self.children)

    def __iter__(self):
        return iter(self.children)

    def __contains__(self, item):
        return any(item is c for c in self.children)

    def __getitem__(self, key):
        return self.children[key]


class HNodeBag(_Bag, HNode):
    pass


class HLightBag(_Bag, HLight):
    __slots__ = ()

    def __repr__(self):
        return "HLightBag(%r)" % (self.name,)


class HLightStr(HLight):
    """`__slots__` given as a single string (legal Python: one slot of that name)."""

    __slots__ = "label"

    def __init__(self, name, parent=None, children=None, **kwargs):
        self.label = "l-" + str(name)
        HLight.__init__(self, name, parent=parent, children=children, **kwargs)

    def __repr__(self):
        return "HLightStr(%r)" % (self.name,)


class HMixSlot(HMix):
    """A dict-based NodeMixin class that keeps part of its data in a slot."""

    __slots__ = ("extra",)

    def __init__(self, name, parent=None, children=None, **kwargs):
        self.extra = "x-" + str(name)
        HMix.__init__(self, name, parent=parent, children=children, **kwargs)

    def __repr__(self):
        return "HMixSlot(%r)" % (self.name,)


class HLightSub(HLight):
    """A second level of __slots__ (C19: every level's slots must survive a copy)."""

    __slots__ = ("extra",)

    def __init__(self, name, parent=None, children=None, **kwargs):
        self.extra = "x-" + str(name)
        HLight.__init__(self, name, parent=parent, children=children, **kwargs)

    def __repr__(self):
        return "HLightSub(%r)" % (self.name,)


class HNodeUnhash(HNode):
    """What `@dataclass` (eq=True) gives: value equality and no hash at all."""

    def __eq__(self, other):
        return isinstance(other, HNodeUnhash) and _eqkey(self) == _eqkey(other)

    def __ne__(self, other):
        return not self.__eq__(other)

    __hash__ = None


class HMixNo(HMix):
    """Always falsy (the NodeMixin twin of HLightNo)."""

    def __bool__(self):
        return False

    def __repr__(self):
        return "HMixNo(%r)" % (self.name,)


class HMixBag(_Bag, HMix):
    """Container-like (the NodeMixin twin of HLightBag)."""

    def __repr__(self):
        return "HMixBag(%r)" % (self.name,)


class HMixProxy(HMix):
    """A record-like node that keeps all its attributes - the mixin's private ones included - in a backing
    store of its own, through __setattr__/__getattr__ (as SymlinkNodeMixin itself does with its target).

    NOT part of any universe: a class that intercepts the mixin's name-mangled private attributes pins *how* the
    mixin reaches its own state (instance attribute protocol only, no class-level defaults, no __dict__ access),
    which no property states - a behaviour-preserving change (controls/C19-o4) tripped over it.  Kept for replays."""

    def __init__(self, name, parent=None, children=None, **kwargs):
        object.__setattr__(self, "_store", {})
        self._store.update(kwargs)
        self.name = name
        self.parent = parent
        if children:
            self.children = children

    def __setattr__(self, key, value):
        if key in ("parent", "children"):
            object.__setattr__(self, key, value)  # the mixin's properties
        else:
            object.__getattribute__(self, "_store")[key] = value

    def __getattr__(self, key):
        try:
            return object.__getattribute__(self, "_store")[key]
        except KeyError:
            raise AttributeError(key)

    def __delattr__(self, key):
        if key in ("parent", "children"):
            object.__delattr__(self, key)
            return
        try:
            del object.__getattribute__(self, "_store")[key]
        except KeyError:
            raise AttributeError(key)

    def __repr__(self):
        return "HMixProxy(%r)" % (self.name,)


class HMixPath(HMix):
    """A class that uses the name `path` for a helper of its own (a string).  Navigation attributes built on
    `path` are then the user's business; parent/children assignment must work as for any other class."""

    @property
    def path(self):
        return "/" + "/".join(reversed([str(n.name) for n in self.iter_path_reverse()]))

    def __repr__(self):
        return "HMixPath(%r)" % (self.name,)


# ordinary words a user class may already use for methods of its own.  None of them is a name of the library's
# node classes today; should the library start to use one of them for its own plumbing, the user's method
# (which does something else entirely) takes its place.
USER_WORDS = (
    "detach", "attach", "add_child", "remove_child", "add", "remove", "append", "insert", "insert_child", "move", "move_to",
    "copy", "clear", "sort", "sort_children", "replace", "pop", "extend", "update", "delete", "level", "index",
    "is_ancestor_of", "is_descendant_of", "walk", "find", "findall", "get", "glob", "render", "export", "to_dict", "from_dict",
    "validate", "check", "link", "unlink", "set_parent", "get_parent", "set_children", "get_children", "add_children",
    "remove_children", "reparent", "prune", "graft", "merge", "split", "swap", "rotate", "flatten", "visit", "accept", "apply",
    "count", "items", "keys", "values", "node_id", "get_node_id", "is_node", "check_loop", "iter_children", "iter_path",
)


def _user_method(word):
    def method(self, *args, **kwargs):
        # something of the user's own (here: nothing at all)
        return None

    method.__name__ = word
    return method


class _Words(object):
    __slots__ = ()


for _w in USER_WORDS:
    setattr(_Words, _w, _user_method(_w))


class HNodeWords(_Words, HNode):
    pass


class HMixWords(_Words, HMix):
    def __repr__(self):
        return "HMixWords(%r)" % (self.name,)


class HLightWords(_Words, HLight):
    __slots__ = ()

    def __repr__(self):
        return "HLightWords(%r)" % (self.name,)


CLASSES = {
    "HNodeWords": HNodeWords,
    "HMixWords": HMixWords,
    "HLightWords": HLightWords,
    "HNodeUnhash": HNodeUnhash,
    "HMixNo": HMixNo,
    "HMixBag": HMixBag,
    "HMixProxy": HMixProxy,
    "HMixPath": HMixPath,
    "HNodeRO": HNodeRO,
    # the library's own classes, exactly as shipped (no hook routing: used where no fault is injected)
    "PNode": Node,
    "PAny": AnyNode,
    "PSym": SymlinkNode,
    "HLightStr": HLightStr,
    "HMixSlot": HMixSlot,
    "HNodeInst": HNodeInst,
    "HSymProp": HSymProp,
    "HNodeNo": HNodeNo,
    "HLightNo": HLightNo,
    "HMixEq": HMixEq,
    "HNodeBag": HNodeBag,
    "HLightBag": HLightBag,
    "HLightSub": HLightSub,
    "HNodeEq": HNodeEq,
    "HLightEq": HLightEq,
    "HNode": HNode,
    "HAny": HAny,
    "HMix": HMix,
    "HSym": HSym,
    "HSymMix": HSymMix,
    "HLight": HLight,
    "HLightDict": HLightDict,
}
FAMILY = {
    "HNodeWords": "node",
    "HMixWords": "node",
    "HLightWords": "light",
    "HNodeUnhash": "node",
    "HMixNo": "node",
    "HMixBag": "node",
    "HMixProxy": "node",
    "HMixPath": "node",
    "HNodeRO": "node",
    "PNode": "node",
    "PAny": "node",
    "PSym": "node",
    "HLightStr": "light",
    "HMixSlot": "node",
    "HNodeInst": "node",
    "HSymProp": "node",
    "HNodeNo": "node",
    "HLightNo": "light",
    "HMixEq": "node",
    "HNodeBag": "node",
    "HLightBag": "light",
    "HLightSub": "light",
    "HNodeEq": "node",
    "HLightEq": "light",
    "HNode": "node",
    "HAny": "node",
    "HMix": "node",
    "HSym": "node",
    "HSymMix": "node",
    "HLight": "light",
    "HLightDict": "light",
}
LINK_CLASSES = ("HSym", "HSymMix", "HSymProp", "PSym")


class NonNode(object):
    """A value that is not a tree node (for the refusal clauses)."""

    def __init__(self, tag):
        self.tag = tag

    def __repr__(self):
        return "NonNode(%r)" % (self.tag,)


def nonnode_value(tag):
    if tag == "int":
        return 5
    if tag == "str":
        return "x"
    if tag == "list":
        return []
    return NonNode(tag)


def make_node(clsname, name, attrs=None, target=None, parent=None, children=None, register=None):
    """Construct a node the way `cls(...)` does, but hand the object to `register`
    before __init__ runs, so a node whose constructor raised half-way (after its
    parent assignment succeeded) is still known to the universe."""
    cls = CLASSES[clsname] if isinstance(clsname, str) else clsname
    obj = cls.__new__(cls)
    if register is not None:
        register(obj)
    if cls is HNodeInst:
        _instance_hooks(obj)
    attrs = attrs or {}
    base = getattr(cls, "_sim_base", cls.__name__)
    if base in ("HSym",) or cls is SymlinkNode:
        obj.__init__(target, parent=parent, children=children, **attrs)
    elif base in ("HSymMix", "HSymProp"):
        obj.__init__(target, parent=parent, children=children)
    elif base == "HAny" or cls is AnyNode:
        obj.__init__(parent=parent, children=children, name=name, **attrs)
    else:
        obj.__init__(name, parent=parent, children=children, **attrs)
    return obj


class FaultPlan(object):
    """Fault plan of one operation.

    once:    [k, excname, kinds]  fires at the first hook invocation inside this
             operation whose index is >= k and whose kind is in `kinds` (None = any)
    persist: [hook kind or None, node indices or None, excname]  every matching invocation raises
    """

    __slots__ = ("once", "persist", "act")

    def __init__(self, spec):
        self.once = []
        self.persist = []
        self.act = {}
        if spec:
            for ent in spec.get("act", ()):
                self.act[ent[0]] = tuple(ent[1:])
            for ent in spec.get("once", ()):
                k, exc = ent[0], ent[1]
                kinds = ent[2] if len(ent) > 2 else None
                self.once.append((k, exc, None if kinds is None else tuple(kinds)))
            self.once.sort(key=lambda e: e[0])
            for hook, nodes, exc in spec.get("persist", ()):
                self.persist.append((hook, None if nodes is None else frozenset(nodes), exc))

    def decide(self, k, kind, ni):
        once = self.once
        if once:
            for i, (k0, exc, kinds) in enumerate(once):
                if k >= k0 and (kinds is None or kind in kinds):
                    del once[i]
                    return exc, "once"
        for hook, nodes, exc in self.persist:
            if (hook is None or hook == kind) and (nodes is None or ni in nodes):
                return exc, "persist"
        return None, None


class World(object):
    """A universe of real node objects, addressed by index."""

    def __init__(self, observe_hooks=False):
        self.nodes = []
        self.cls = []
        self._idx = {}
        self.observe_hooks = observe_hooks
        self.hook_reads = ()
        self.hook_ret = None
        self.call_super = False
        self.plan = FaultPlan(None)
        self.hooklog = []
        self.fired = []
        self.acted = []
        self.hook_count = 0
        self.serial = 0
        self.total_hooks = 0
        self.total_fired = 0

    # -- registry -------------------------------------------------------------
    def register(self, obj, clsname=None):
        self._idx[id(obj)] = len(self.nodes)
        self.nodes.append(obj)
        self.cls.append(clsname or type(obj).__name__)
        return len(self.nodes) - 1

    def index(self, obj):
        """Index of a node object, -1 for None... no: None -> None, unknown -> ('?', type name)."""
        if obj is None:
            return None
        i = self._idx.get(id(obj))
        if i is None or self.nodes[i] is not obj:
            return ("?", type(obj).__name__)
        return i

    def class_for(self, clsname):
        """Class used by this universe for a class name of the operation alphabet
        (twin universes map the same name to different classes)."""
        m = getattr(self, "classmap", None)
        if m:
            return m.get(clsname, clsname)
        return clsname

    def new(self, clsname, name, **kw):
        holder = []

        def reg(obj):
            holder.append(self.register(obj, clsname if isinstance(clsname, str) else None))

        make_node(clsname, name, register=reg, **kw)
        return holder[0]

    # -- hooks ----------------------------------------------------------------
    def begin_op(self, faultspec):
        self.plan = FaultPlan(faultspec)
        self.hooklog = []
        self.fired = []
        self.acted = []
        self.hook_count = 0

    def on_hook(self, node, kind, arg):
        k = self.hook_count
        self.hook_count = k + 1
        self.total_hooks += 1
        ni = self.index(node)
        if kind in PARENT_HOOKS:
            ai = self.index(arg)
        else:
            ai = tuple(self.index(x) for x in arg)
        obs = self._observe(node, kind, arg) if self.observe_hooks else None
        if self.plan.act:
            # a hook that changes the tree itself: it detaches some *other* node (e.g. a class that
            # keeps child names unique evicts the same-named sibling in _pre_attach)
            act = self.plan.act.pop(k, None)
            if act is not None and self.nodes[act[0]] is not node:
                x = act[0]
                y = act[1] if len(act) > 1 else None
                self.acted.append((k, x) if y is None else (k, x, y))
                # (an exception from this nested assignment is an exception raised by the hook)
                self.nodes[x].parent = None if y is None else self.nodes[y]
        if self.hook_reads:
            # a hook that looks at the tree (logging, validation, capacity checks ...)
            others = (arg,) if kind in PARENT_HOOKS else tuple(arg)[:2]
            try:
                for attr in self.hook_reads:
                    getattr(node, attr)
                    for o in others:
                        getattr(o, attr)
            except RecursionError as exc:
                # the hook's own reads ran out of stack (deep inside an unbounded rollback recursion):
                # this is an exception raised by the hook, like an injected one
                self.serial += 1
                self.total_fired += 1
                exc.sim_serial = self.serial
                self.hooklog.append((kind, ni, ai, None))
                self.fired.append((k, kind, ni, "RecursionError", "reads", self.serial))
                raise
        self.hooklog.append((kind, ni, ai, obs))
        exc, how = self.plan.decide(k, kind, ni)
        if exc is not None:
            self.serial += 1
            self.total_fired += 1
            e = EXC[exc]("injected#%d at hook %d %s(%s)" % (self.serial, k, kind, ni))
            e.sim_serial = self.serial
            self.fired.append((k, kind, ni, exc, how, self.serial))
            raise e

    def _observe(self, node, kind, arg):
        """What a hook can see at the instant it is called (public API only)."""
        par = self.index(node.parent)
        if kind in PARENT_HOOKS:
            pos = -1
            kids = arg.children
            for i, c in enumerate(kids):
                if c is node:
                    pos = i
                    break
            return (par, pos, len(kids))
        return (par, tuple(self.index(c) for c in node.children))

    # -- observation ------------------------------------------------------------
    def snapshot(self):
        """(parent index, children index tuple) per node, public API only."""
        index = self.index
        return tuple((index(n.parent), tuple(index(c) for c in n.children)) for n in self.nodes)


_TRUE_DEPTH = {}


def _measure_depth():
    """Interpreter recursion depth at the caller (probe: recurse until RecursionError)."""
    limit = sys.getrecursionlimit()

    def rec(n):
        try:
            return rec(n + 1)
        except RecursionError:
            return n

    return limit - rec(0) - 1


class OpGuard(object):
    """Watchdog + fixed recursion limit around one library call.

    A hang (e.g. a parent cycle making `.root` spin) becomes a Watchdog
    exception instead of a stuck check; the recursion limit is pinned so the
    depth at which unbounded recursion ends in RecursionError is the same in
    search, shrink and replay."""

    # Python-frame budget of one library call.  Kept well below the default of 1000 so that it, and not
    # the interpreter's C-level recursion budget (which depends on how the calling process was entered and
    # cannot be pinned), decides where unbounded recursion ends: that keeps such runs replayable.
    LIMIT = 300

    def __init__(self, seconds=1.5, limit=None):
        self.seconds = seconds
        if limit:
            self.LIMIT = limit

    def _alarm(self, signum, frame):
        raise Watchdog("library call exceeded %.1fs of CPU time" % self.seconds)

    def __enter__(self):
        # CPU time of this process, not wall-clock time: a call that spins burns CPU, while a worker that is
        # merely descheduled on a busy machine must not look like a hang
        self._old = signal.signal(signal.SIGVTALRM, self._alarm)
        signal.setitimer(signal.ITIMER_VIRTUAL, self.seconds)
        self._oldlimit = sys.getrecursionlimit()
        depth = 0
        f = sys._getframe()
        while f is not None:
            depth += 1
            f = f.f_back
        # the interpreter's own depth counter is not the number of visible frames (calls entered
        # from C code count differently), and it differs between a pool worker and a stand-alone
        # replay: measure it once per calling context, so that the stack budget of the library
        # call - and with it the exact point where unbounded recursion ends in RecursionError -
        # is the same in search, shrink and replay
        true = _TRUE_DEPTH.get(depth)
        if true is None:
            true = _TRUE_DEPTH[depth] = _measure_depth()
        sys.setrecursionlimit(true + self.LIMIT)
        return self

    def __exit__(self, *exc):
        signal.setitimer(signal.ITIMER_VIRTUAL, 0)
        signal.signal(signal.SIGVTALRM, self._old)
        sys.setrecursionlimit(self._oldlimit)
        return False
