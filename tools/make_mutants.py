#!/venv/bin/python
"""Generate /verif/mutants/*.patch: deliberate breakages of anytree used by
`./check selftest-mutants` to prove that the checks are sensitive.  Each mutant
is a textual replacement in one file of /repo's current tree; the patch is a
unified diff relative to the repository root (apply with `patch -p1` / `git apply`).
"""
import difflib
import json
import os
import sys

REPO = os.environ.get("ANYTREE_SRC", "/repo")
OUT = os.path.join(os.path.dirname(os.path.dirname(os.path.abspath(__file__))), "mutants")

NM = "anytree/node/nodemixin.py"
LM = "anytree/node/lightnodemixin.py"
RS = "anytree/resolver.py"
DE = "anytree/exporter/dotexporter.py"
ME = "anytree/exporter/mermaidexporter.py"
UT = "anytree/util/__init__.py"
SY = "anytree/node/symlinknodemixin.py"
SN = "anytree/node/symlinknode.py"
CS = "anytree/cachedsearch.py"
SE = "anytree/search.py"

ATTACH_OLD = """            self._pre_attach(parent)
            parentchildren = parent.__children_or_empty
            if ASSERTIONS:  # pragma: no branch
                assert not any(child is self for child in parentchildren), "Tree is corrupt."  # pragma: no cover
            # ATOMIC START
            parentchildren.append(self)
            self.__parent = parent
            # ATOMIC END
            self._post_attach(parent)
"""

M = []


def mut(mid, props, path, old, new, note, count=1):
    M.append({"id": mid, "props": props, "path": path, "old": old, "new": new, "note": note, "count": count})


# --- structural core -------------------------------------------------------------------------------
mut("append_before_pre_attach", ["C01", "C03", "C16"], NM, ATTACH_OLD,
    """            parentchildren = parent.__children_or_empty
            if ASSERTIONS:  # pragma: no branch
                assert not any(child is self for child in parentchildren), "Tree is corrupt."  # pragma: no cover
            # ATOMIC START
            parentchildren.append(self)
            self._pre_attach(parent)
            self.__parent = parent
            # ATOMIC END
            self._post_attach(parent)
""", "child appended before _pre_attach: a veto leaves it listed without parent link")
mut("post_attach_before_link", ["C16"], NM, ATTACH_OLD,
    """            self._pre_attach(parent)
            parentchildren = parent.__children_or_empty
            if ASSERTIONS:  # pragma: no branch
                assert not any(child is self for child in parentchildren), "Tree is corrupt."  # pragma: no cover
            # ATOMIC START
            parentchildren.append(self)
            self._post_attach(parent)
            self.__parent = parent
            # ATOMIC END
""", "_post_attach fires before the parent link is set (and a raising post hook leaves the lists inconsistent)")
mut("loop_check_self_only_light", ["C01", "C02", "C18"], LM,
    """            if any(child is self for child in node.iter_path_reverse()):
                msg = "Cannot set parent. %r is parent of %r."
                raise LoopError(msg % (self, node))
""", "", "LightNodeMixin loop check reduced to `node is self`: cycles become possible")
mut("loop_check_grandparent", ["C02", "C01"], NM,
    "            if any(child is self for child in node.iter_path_reverse()):",
    "            if node.parent is self:",
    "loop check only looks one level up")
mut("noop_guard_removed", ["C02", "C16"], NM,
    "        if parent is not value:\n            self.__check_loop(value)",
    "        if True:\n            self.__check_loop(value)",
    "assigning the current parent re-attaches: sibling order changes, hooks fire")
mut("attach_front", ["C02", "C16"], LM,
    "            parentchildren.append(self)", "            parentchildren.insert(0, self)",
    "LightNodeMixin attaches at the front instead of appending")
mut("children_validate_after_detach", ["C03"], NM,
    """        children = tuple(children)
        NodeMixin.__check_children(children)
        # ATOMIC start
        old_children = self.children
        del self.children
""", """        children = tuple(children)
        # ATOMIC start
        old_children = self.children
        del self.children
        NodeMixin.__check_children(children)
""", "children validated after the old children were detached: TreeError leaves them detached")
mut("children_no_rollback_light", ["C03", "C18"], LM,
    """        except Exception:
            self.children = old_children
            raise
""", """        except Exception:
            raise
""", "LightNodeMixin children setter forgets the rollback")
mut("children_no_dup_check", ["C02", "C01"], NM,
    """            if childid not in seen:
                seen.add(childid)
            else:
                msg = "Cannot add node %r multiple times as child." % (child,)
                raise TreeError(msg)
""", """            seen.add(childid)
""", "duplicate children no longer refused")
mut("deleter_bypasses_hooks", ["C16", "C18"], LM,
    """        for child in self.children:
            child.parent = None
        if ASSERTIONS:  # pragma: no branch
            assert len(self.children) == 0
""", """        for child in self.children:
            child._LightNodeMixin__parent = None
        self.__children = []
        if ASSERTIONS:  # pragma: no branch
            assert len(self.children) == 0
""", "LightNodeMixin deleter unlinks the children directly: no per-child detach hooks")
mut("detach_hooks_swapped", ["C16"], LM,
    """            self._pre_detach(parent)
            parentchildren = parent.__children_or_empty""",
    """            self._post_detach(parent)
            parentchildren = parent.__children_or_empty""",
    "LightNodeMixin calls _post_detach twice instead of pre/post")
mut("parent_type_check_dropped", ["C02"], NM,
    """        if value is not None and not isinstance(value, (NodeMixin, LightNodeMixin)):
            msg = "Parent node %r is not of type 'NodeMixin'." % (value,)
            raise TreeError(msg)
""", "", "non-node parents no longer refused with TreeError")
mut("detach_by_equality", ["C17"], NM,
    "            parent.__children = [child for child in parentchildren if child is not self]",
    "            parentchildren.remove(self)\n            parent.__children = parentchildren",
    "detach uses list.remove (equality)")
mut("assertion_overzealous", ["C01"], NM,
    "                assert len(self.children) == len(children)",
    "                assert len(self.children) == len(children) and all(c.is_leaf for c in children)",
    "an internal assertion that fires for legal inputs when ANYTREE_ASSERTIONS=1")
# --- navigation ------------------------------------------------------------------------------------------
mut("height_last_child", ["C04", "C18"], NM,
    "            return max(child.height for child in children) + 1",
    "            return children[-1].height + 1", "height follows only the last child")
mut("depth_off_by_one_light", ["C04", "C18"], LM,
    "        return depth\n", "        return depth + (1 if depth > 2 else 0)\n", "LightNodeMixin depth wrong below level 2")
mut("siblings_by_equality", ["C17"], NM,
    "        return tuple(node for node in parent.children if node is not self)",
    "        return tuple(node for node in parent.children if node != self)", "siblings via !=")
mut("commonancestors_stops_short", ["C04"], UT,
    "    for parentnodes in zip(*ancestors):", "    for parentnodes in list(zip(*ancestors))[:2]:",
    "commonancestors never returns more than two")
mut("leaves_cached", ["C04"], NM,
    "        return tuple(PreOrderIter(self, filter_=lambda node: node.is_leaf))",
    "        if '_leaves' not in self.__dict__:\n            self.__dict__['_leaves'] = tuple(PreOrderIter(self, filter_=lambda node: node.is_leaf))\n        return self.__dict__['_leaves']",
    "leaves memoised on first access and never invalidated")
mut("sibling_truthiness", ["C17"], UT, "    parent = node.parent\n    if parent is not None:\n        pchildren = parent.children\n        idx = _index(pchildren, node)\n        if idx:",
    "    parent = node.parent\n    if parent:\n        pchildren = parent.children\n        idx = _index(pchildren, node)\n        if idx:", "leftsibling tests the parent's truth value again")
# --- resolver ----------------------------------------------------------------------------------------------
mut("cache_key_without_ignorecase", ["C08"], RS, "        k = (pat, self.ignorecase)", "        k = pat",
    "pattern cache keyed by the pattern only: another resolver's ignorecase flag leaks")
mut("translate_no_escape", ["C08"], RS, "                re_pat += re.escape(char)", "                re_pat += char if char.isalnum() or char in '._- ' else re.escape(char)",
    "'.' in names no longer escaped")
mut("translate_no_anchor", ["C08"], RS, '        return r"(?ms)" + re_pat + r"\\Z"', '        return r"(?ms)" + re_pat',
    "pattern not anchored at the end")
mut("question_optional", ["C08"], RS, '                re_pat += "."\n', '                re_pat += ".?"\n', "'?' also matches no character")
mut("cache_clear_off_by_one", ["C08"], RS,
    """            if len(Resolver._match_cache) >= _MAXCACHE:
                Resolver._match_cache.clear()
            flags = 0
            if self.ignorecase:
                flags |= re.IGNORECASE
            Resolver._match_cache[k] = re_pat = re.compile(res, flags=flags)""",
    """            flags = 0
            if self.ignorecase:
                flags |= re.IGNORECASE
            re_pat = re.compile(res, flags=flags)
            if len(Resolver._match_cache) >= _MAXCACHE:
                # recycle the oldest slot instead of clearing
                oldest = next(iter(Resolver._match_cache))
                Resolver._match_cache[k] = Resolver._match_cache.pop(oldest)
            else:
                Resolver._match_cache[k] = re_pat""",
    "on a full cache the new key is bound to the evicted entry's compiled pattern")
mut("glob_dedup_equality", ["C17"], RS, "                        if not any(match is other for other in matches):", "                        if match not in matches:",
    "'**' de-duplicates by equality again")
# --- exporters ------------------------------------------------------------------------------------------------
mut("dot_edges_ignore_filter", ["C12"], DE, "                if not filter_(child):\n                    continue\n", "",
    "edges to filtered-out children are written")
mut("udot_ids_by_name", ["C12"], DE,
    "        node_id = id(node)\n        try:\n            num = self.__node_ids[node_id]",
    "        node_id = getattr(node, 'name', id(node))\n        try:\n            num = self.__node_ids[node_id]",
    "UniqueDotExporter keys its identifier map by name: colliding names share an identifier")
mut("udot_ids_reset_per_iter", ["C12"], DE,
    "    def _default_nodenamefunc(self, node):\n        node_id = id(node)\n        try:\n            num = self.__node_ids[node_id]",
    "    def __iter__(self):\n        self.__node_ids = {}\n        return super(UniqueDotExporter, self).__iter__()\n\n    def _default_nodenamefunc(self, node):\n        node_id = id(node)\n        try:\n            num = self.__node_ids[node_id]",
    "identifier map reset at each iteration while the counter keeps counting: ids change between iterations and interleaved cursors disagree")
mut("dot_esc_quotes_only", ["C12"], DE, "_RE_ESC = re.compile(r'[\"\\\\]')", "_RE_ESC = re.compile(r'[\"]')",
    "backslashes no longer escaped")
mut("dot_edge_maxlevel", ["C12"], DE, "        maxlevel = self.maxlevel - 1 if self.maxlevel is not None else None",
    "        maxlevel = self.maxlevel if self.maxlevel is not None else None", "edge pass one level too deep")
mut("mermaid_edges_ignore_stop", ["C13"], ME, "                if filter_(child) and not stop(child):", "                if filter_(child):",
    "Mermaid edges to stopped children")
mut("mermaid_ids_reset_per_iter", ["C13"], ME,
    "        indent = \" \" * self.indent\n        nodenamefunc = self.nodenamefunc or self._default_nodenamefunc\n        nodefunc",
    "        indent = \" \" * self.indent\n        self.__node_counter = itertools.count()\n        nodenamefunc = self.nodenamefunc or self._default_nodenamefunc\n        nodefunc",
    "Mermaid counter restarts at every iteration: a node first seen in the 2nd iteration gets an id already in use")
mut("mermaid_tofile_no_fence_end", ["C13"], ME, '            file.write("```")', '            file.write("```\\n")', "to_file writes a trailing newline after the fence")
# --- search ---------------------------------------------------------------------------------------------------------
mut("cachedsearch_lru", ["C14"], CS,
    """        def decorator(func):
            @wraps(func)
            def wrapped(*args, **kwargs):
                return func(*args, **kwargs)

            return wrapped
""", """        def decorator(func):
            from functools import lru_cache

            return wraps(func)(lru_cache(size)(func))
""", "functools.lru_cache as the fallback: stale results after the tree changes")
mut("findall_maxcount_inclusive", ["C14"], SE, "    if maxcount is not None and resultlen > maxcount:", "    if maxcount is not None and resultlen >= maxcount and resultlen > 1:",
    "maxcount == count (>1) raises")
mut("cachedsearch_drops_maxlevel", ["C14"], CS,
    "    return search.find_by_attr(node, value, name=name, maxlevel=maxlevel)", "    return search.find_by_attr(node, value, name=name)",
    "cachedsearch.find_by_attr drops maxlevel")
# --- pickling / symlinks ----------------------------------------------------------------------------------------------
mut("getstate_drops_lazy_children", ["C19"], NM,
    "    @property\n    def __children_or_empty(self):",
    "    def __getstate__(self):\n        state = dict(self.__dict__)\n        if not state.get('_NodeMixin__children'):\n            state.pop('_NodeMixin__parent', None) if False else None\n            state['_NodeMixin__children'] = state.get('_NodeMixin__children') or []\n        elif len(state['_NodeMixin__children']) > 2:\n            state['_NodeMixin__children'] = state['_NodeMixin__children'][:2] + state['_NodeMixin__children'][2:][::-1]\n        return state\n\n    @property\n    def __children_or_empty(self):",
    "__getstate__ reorders children beyond the second")
mut("deepcopy_shares_children", ["C19"], NM,
    "    @property\n    def __children_or_empty(self):",
    "    def __deepcopy__(self, memo):\n        import copy as _copy\n\n        cls = self.__class__\n        new = cls.__new__(cls)\n        memo[id(self)] = new\n        for key, value in self.__dict__.items():\n            if key == '_NodeMixin__children' and not value:\n                new.__dict__[key] = value\n            else:\n                new.__dict__[key] = _copy.deepcopy(value, memo)\n        return new\n\n    @property\n    def __children_or_empty(self):",
    "__deepcopy__ shares an empty children list between copy and original: later attaching to one shows in the other")
mut("symlink_setattr_local_cache", ["C20"], SY,
    "            setattr(self.target, name, value)", "            setattr(self.target, name, value)\n            if name.startswith('b'):\n                self.__dict__[name] = value",
    "link keeps a local copy of some forwarded attributes: later writes on the target are not seen through the link")
mut("symlink_ctor_dict_update", ["C20"], SN, "        for key, value in kwargs.items():\n            setattr(target, key, value)", "        self.target.__dict__.update(kwargs)",
    "the repaired constructor defect comes back")


def main():
    os.makedirs(OUT, exist_ok=True)
    for f in os.listdir(OUT):
        if f.endswith(".patch"):
            os.remove(os.path.join(OUT, f))
    index = []
    bad = 0
    for m in M:
        path = os.path.join(REPO, m["path"])
        src = open(path, encoding="utf-8").read()
        if src.count(m["old"]) < 1:
            print("MUTANT %s: anchor text not found in %s" % (m["id"], m["path"]))
            bad += 1
            continue
        new = src.replace(m["old"], m["new"], m["count"])
        diff = "".join(
            difflib.unified_diff(
                src.splitlines(True), new.splitlines(True), "a/" + m["path"], "b/" + m["path"], n=3
            )
        )
        with open(os.path.join(OUT, m["id"] + ".patch"), "w", encoding="utf-8") as f:
            f.write(diff)
        index.append({"id": m["id"], "props": m["props"], "path": m["path"], "note": m["note"]})
    with open(os.path.join(OUT, "index.json"), "w") as f:
        json.dump(index, f, indent=1)
        f.write("\n")
    print("wrote %d mutants to %s (%d anchors missing)" % (len(index), OUT, bad))
    return 1 if bad else 0


if __name__ == "__main__":
    sys.exit(main())
