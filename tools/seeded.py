#!/venv/bin/python
"""Confirm and file a seeded change produced by an independent sub-agent.

  tools/seeded.py add <worktree> <k> <property> <name>   confirm (tests still pass, demo fails with / passes without
                                                         the change), copy to /verif/seeded/<name>/, run the checks
  tools/seeded.py run [<name> ...]                        re-run the checks against filed changes and update meta.json

The change is never applied to /repo: checks run against a scratch copy of /repo's anytree package with the patch
applied (ANYTREE_SRC), which is what `./check selftest-patch` does.
"""
import json
import os
import re
import shutil
import subprocess
import sys

VERIF = os.path.dirname(os.path.dirname(os.path.abspath(__file__)))
SEEDED = os.path.join(VERIF, "seeded")
PY = "/venv/bin/python"


def sh(cmd, cwd=None, env=None, timeout=900):
    p = subprocess.run(cmd, cwd=cwd, env=env, stdout=subprocess.PIPE, stderr=subprocess.STDOUT, timeout=timeout)
    return p.returncode, p.stdout.decode("utf-8", "replace")


def confirm(wt, k):
    patch = os.path.join(wt, "patch%s.diff" % k)
    demo = "demo%s.py" % k
    rc, out = sh(["git", "status", "--porcelain", "--untracked-files=no"], cwd=wt)
    if out.strip():
        raise SystemExit("worktree %s is not clean:\n%s" % (wt, out))
    env = dict(os.environ, PYTHONDONTWRITEBYTECODE="1")
    rc0, _ = sh([PY, "-B", demo], cwd=wt, env=env)
    rc, out = sh(["git", "apply", patch], cwd=wt)
    if rc != 0:
        raise SystemExit("patch does not apply: " + out)
    try:
        rc1, demo_out = sh([PY, "-B", demo], cwd=wt, env=env)
        _, tests = sh([PY, "-m", "pytest", "-q", "-p", "no:cacheprovider", "-x", "--deselect", "tests/test_dotexport.py"], cwd=wt, env=env)
        m = re.search(r"(\d+) passed", tests)
        passed = int(m.group(1)) if m else 0
        failed = re.search(r"(\d+) failed", tests)
        rc_i, _ = sh([PY, "-B", "-c", "import anytree, anytree.cachedsearch, anytree.exporter, anytree.importer"], cwd=wt, env=env)
    finally:
        sh(["git", "apply", "-R", patch], cwd=wt)
    files = subprocess.run(["git", "apply", "--numstat", patch], cwd=wt, stdout=subprocess.PIPE).stdout.decode().split("\n")
    touched = [ln.split("\t")[2] for ln in files if ln.strip()]
    return {
        "demo_exit_without_change": rc0,
        "demo_exit_with_change": rc1,
        "demo_output_with_change": demo_out[-600:],
        "tests_passed_with_change": passed,
        "tests_failed_with_change": int(failed.group(1)) if failed else 0,
        "imports_with_change": rc_i == 0,
        "files_touched": touched,
        "ok": rc0 == 0 and rc1 != 0 and passed == 160 and not failed and rc_i == 0 and all(t.startswith("anytree/") for t in touched),
    }


def run_checks(name, props=None, tier="quick"):
    d = os.path.join(SEEDED, name)
    meta = json.load(open(os.path.join(d, "meta.json")))
    env = dict(os.environ)
    if props:
        env["VERIF_PROPS"] = ",".join(props)
    rc, out = sh([os.path.join(VERIF, "check"), "selftest-patch", os.path.join(d, "patch.diff"), "--tier", tier], cwd=VERIF, env=env, timeout=7200)
    res = {}
    for ln in out.splitlines():
        m = re.match(r"^(C\d+) exit=(\d+) ([\d.]+)s genuine=(\d+) spurious=(\d+) ?(.*)$", ln)
        if m:
            res[m.group(1)] = {"exit": int(m.group(2)), "wall_s": float(m.group(3)), "replays_silent_on_clean_tree": int(m.group(4)),
                               "replays_also_failing_on_clean_tree": int(m.group(5)), "first": m.group(6)[:240]}
    meta.setdefault("checks", {}).update(res)
    meta["detected_by"] = sorted(p for p, r in meta["checks"].items() if r["exit"] == 1)
    meta["harness_errors"] = sorted(p for p, r in meta["checks"].items() if r["exit"] == 2)
    meta["detected_by_own_check"] = meta["property"] in meta["detected_by"]
    json.dump(meta, open(os.path.join(d, "meta.json"), "w"), indent=1, sort_keys=True)
    print("%-28s %s own=%s detected_by=%s%s" % (name, meta["property"], meta["detected_by_own_check"], ",".join(meta["detected_by"]) or "-",
                                              (" HARNESS-ERRORS " + ",".join(meta["harness_errors"])) if meta["harness_errors"] else ""))
    return meta


def main(argv):
    if argv[0] == "add":
        wt, k, prop, name = argv[1:5]
        c = confirm(wt, k)
        if not c["ok"]:
            print("NOT CONFIRMED %s: %s" % (name, json.dumps(c, indent=1)))
            return 1
        d = os.path.join(SEEDED, name)
        os.makedirs(d, exist_ok=True)
        shutil.copy(os.path.join(wt, "patch%s.diff" % k), os.path.join(d, "patch.diff"))
        shutil.copy(os.path.join(wt, "demo%s.py" % k), os.path.join(d, "demo.py"))
        desc = open(os.path.join(wt, "desc%s.txt" % k)).read() if os.path.exists(os.path.join(wt, "desc%s.txt" % k)) else ""
        meta = {
            "property": prop,
            "source": os.environ.get("SEEDED_SOURCE", "independent sub-agent given only the property text and a scratch worktree"),
            "description_and_what_it_needs_to_manifest": desc.strip(),
            "confirmed": c,
            "what_was_run": "git apply in the scratch worktree; pytest (160 pass, tests/test_dotexport.py deselected: its 3 tests always fail here); demo.py with and without the change; ./check selftest-patch <patch> (scratch copy of /repo's anytree with the patch applied, all claimed checks, quick tier)",
        }
        json.dump(meta, open(os.path.join(d, "meta.json"), "w"), indent=1, sort_keys=True)
        run_checks(name, props=argv[5].split(",") if len(argv) > 5 else None)
        return 0
    if argv[0] == "run":
        names = argv[1:] or sorted(os.listdir(SEEDED))
        props = os.environ.get("SEEDED_PROPS")
        for n in names:
            if os.path.exists(os.path.join(SEEDED, n, "meta.json")):
                run_checks(n, props=props.split(",") if props else None)
        return 0
    print(__doc__)
    return 2


if __name__ == "__main__":
    sys.exit(main(sys.argv[1:]))
