#!/venv/bin/python
"""Negative controls: behaviour-preserving changes written by independent sub-agents.  Every check must stay silent.

  tools/controls.py add <worktree> <k> <property> <name>   confirm (applies, tests unchanged), file under /verif/controls/<name>/,
                                                          run all checks against a scratch copy with the patch applied
  tools/controls.py run [<name> ...]                       re-run
"""
import json
import os
import re
import shutil
import subprocess
import sys

VERIF = os.path.dirname(os.path.dirname(os.path.abspath(__file__)))
CONTROLS = os.path.join(VERIF, "controls")
PY = "/venv/bin/python"


def sh(cmd, cwd=None, env=None, timeout=3600):
    p = subprocess.run(cmd, cwd=cwd, env=env, stdout=subprocess.PIPE, stderr=subprocess.STDOUT, timeout=timeout)
    return p.returncode, p.stdout.decode("utf-8", "replace")


def confirm(wt, k):
    patch = os.path.join(wt, "patch%s.diff" % k)
    rc, out = sh(["git", "status", "--porcelain", "--untracked-files=no"], cwd=wt)
    if out.strip():
        raise SystemExit("worktree %s is not clean:\n%s" % (wt, out))
    rc, out = sh(["git", "apply", patch], cwd=wt)
    if rc != 0:
        raise SystemExit("patch does not apply: " + out)
    env = dict(os.environ, PYTHONDONTWRITEBYTECODE="1")
    try:
        _, tests = sh([PY, "-m", "pytest", "-q", "-p", "no:cacheprovider", "--deselect", "tests/test_dotexport.py"], cwd=wt, env=env)
        m = re.search(r"(\d+) passed", tests)
        failed = re.search(r"(\d+) failed", tests)
        rc_i, _ = sh([PY, "-B", "-c", "import anytree, anytree.cachedsearch, anytree.exporter, anytree.importer"], cwd=wt, env=env)
    finally:
        sh(["git", "apply", "-R", patch], cwd=wt)
    return {"tests_passed_with_change": int(m.group(1)) if m else 0, "tests_failed_with_change": int(failed.group(1)) if failed else 0,
            "imports_with_change": rc_i == 0, "ok": bool(m) and int(m.group(1)) == 160 and not failed and rc_i == 0}


def run_checks(name, runs="12000"):
    d = os.path.join(CONTROLS, name)
    meta = json.load(open(os.path.join(d, "meta.json")))
    rc, out = sh([os.path.join(VERIF, "check"), "selftest-patch", os.path.join(d, "patch.diff"), "--tier", "quick", "--runs", runs], cwd=VERIF)
    res = {}
    for ln in out.splitlines():
        m = re.match(r"^(C\d+) exit=(\d+) ([\d.]+)s genuine=(\d+) spurious=(\d+) ?(.*)$", ln)
        if m:
            res[m.group(1)] = {"exit": int(m.group(2)), "wall_s": float(m.group(3)), "first": m.group(6)[:300]}
    meta["checks"] = res
    meta["alarms"] = sorted(p for p, r in res.items() if r["exit"] != 0)
    json.dump(meta, open(os.path.join(d, "meta.json"), "w"), indent=1, sort_keys=True)
    print("%-14s %s alarms=%s" % (name, meta["property"], ",".join(meta["alarms"]) or "none"))
    for p in meta["alarms"]:
        print("     %s: %s" % (p, res[p]["first"]))
    return meta


def main(argv):
    if argv[0] == "add":
        wt, k, prop, name = argv[1:5]
        c = confirm(wt, k)
        if not c["ok"]:
            print("NOT CONFIRMED %s: %s" % (name, c))
            return 1
        d = os.path.join(CONTROLS, name)
        os.makedirs(d, exist_ok=True)
        shutil.copy(os.path.join(wt, "patch%s.diff" % k), os.path.join(d, "patch.diff"))
        desc = open(os.path.join(wt, "desc%s.txt" % k)).read() if os.path.exists(os.path.join(wt, "desc%s.txt" % k)) else ""
        meta = {"property": prop, "kind": "negative control: a change its author (an independent sub-agent given only the property text) believes to preserve the property",
                "description": desc.strip(), "confirmed": c}
        json.dump(meta, open(os.path.join(d, "meta.json"), "w"), indent=1, sort_keys=True)
        run_checks(name)
        return 0
    if argv[0] == "run":
        for n in argv[1:] or sorted(os.listdir(CONTROLS)):
            if os.path.exists(os.path.join(CONTROLS, n, "meta.json")):
                run_checks(n)
        return 0
    print(__doc__)
    return 2


if __name__ == "__main__":
    sys.exit(main(sys.argv[1:]))
