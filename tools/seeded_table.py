#!/venv/bin/python
"""Rewrite the seeded-changes table in DESIGN.md (between the SEEDED_TABLE markers) from seeded/*/meta.json."""
import json
import os
import re

VERIF = os.path.dirname(os.path.dirname(os.path.abspath(__file__)))


def short(text, n):
    text = " ".join(text.split())
    return text if len(text) <= n else text[: n - 3] + "..."


def main():
    rows = []
    for name in sorted(os.listdir(os.path.join(VERIF, "seeded"))):
        mp = os.path.join(VERIF, "seeded", name, "meta.json")
        if not os.path.exists(mp):
            continue
        m = json.load(open(mp))
        desc = m.get("description_and_what_it_needs_to_manifest", "")
        needs = ""
        mm = re.search(r"(?is)needs?[^:]*:\s*(.+)", desc)
        if mm:
            needs = mm.group(1)
        own = "yes" if m.get("detected_by_own_check") else "**no**"
        others = [p for p in m.get("detected_by", []) if p != m["property"]]
        rows.append("| %s | %s | %s | %s | %s |" % (name, short(desc, 150).replace("|", "/"), short(needs, 110).replace("|", "/"), own, " ".join(others) or "-"))
    table = "\n".join(rows)
    path = os.path.join(VERIF, "DESIGN.md")
    s = open(path).read()
    if "SEEDED_TABLE" in s and "<!-- SEEDED_TABLE_BEGIN -->" not in s:
        s = s.replace("SEEDED_TABLE", "<!-- SEEDED_TABLE_BEGIN -->\n<!-- SEEDED_TABLE_END -->")
    s = re.sub(r"(?s)<!-- SEEDED_TABLE_BEGIN -->.*?<!-- SEEDED_TABLE_END -->", lambda _: "<!-- SEEDED_TABLE_BEGIN -->\n" + table + "\n<!-- SEEDED_TABLE_END -->", s)
    open(path, "w").write(s)
    print("%d rows" % len(rows))


if __name__ == "__main__":
    main()
