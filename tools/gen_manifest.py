#!/venv/bin/python
"""Regenerate /verif/MANIFEST.json from the registry (claimed checks) and the
not-applicable table below.  Run after adding or removing a check."""
import json
import os
import sys

HERE = os.path.dirname(os.path.dirname(os.path.abspath(__file__)))
sys.path.insert(0, HERE)
from sim import engine, registry  # noqa: E402,F401

NOT_APPLICABLE = {
    "C05": "pure function of (tree shape, start node): no history, hidden state, fault point, clock or task interleaving in the statement, its quantifier (inputs) or the code; a seeded schedule has nothing to vary but the input, and dressing input generation as simulation is not this technique (DESIGN.md section 5)",
    "C06": "as C05: filter_/stop/maxlevel are further arguments of the same pure iterator functions; nothing for a schedule or fault to influence",
    "C07": "Resolver.get is a pure function of (tree, names, start, path, flags) and never touches the shared pattern cache; no state, fault or interleaving to simulate",
    "C09": "RenderTree rows/strings are a pure function of (tree, style, childiter, maxlevel); no state, fault or interleaving",
    "C10": "dict export/import are pure functions of their argument; no stream, no state, no fault the property gives a meaning to",
    "C11": "one caller-supplied file handle written/read in a single pass with no retry or partial-write handling, and the property assigns no meaning to I/O faults; fault-free it is a pure function of the tree and options",
    "C15": "Walker.walk is a pure function of (tree, start, end); no state, fault or interleaving",
}
PENDING = {}

TECH = {
    "C01": "deterministic simulation: seeded operation histories (2..14 nodes, rarely 40-300, rarely one 1000+ deep chain; plain, value-equality, falsy, container-like, slots and symlink node classes) x hook-fault injection (once/multi/persistent, all 8 hooks, 7 exception classes incl. BaseException, hooks that read or move nodes) with fault-position sweeps; C01 invariant after every call; both ANYTREE_ASSERTIONS settings",
    "C02": "deterministic simulation: seeded fault-free operation histories (incl. wide, big and 1000+ deep universes, hooks that detach another node), step-by-step refinement against a forest reference model",
    "C03": "deterministic simulation: seeded histories x pre-hook fault enumeration (every position, multi, persistent) and invalid requests, pre/post snapshot equality with exactly-predicted known deviations",
    "C16": "deterministic simulation: recorded hook history (with in-hook observations) vs model-derived trace and per-node bracket automaton, under hook-fault injection on all 8 hooks",
}
TECH.update({
    "C04": "deterministic simulation: seeded mutation histories (with refused and hook-aborted calls); every navigation attribute and util helper re-read on every node after every step and compared with the harness's own walks over the observed links",
    "C17": "deterministic simulation: twin universes (plain vs adversarial special-method class) in lock-step under the same seeded history and fault plan; differential on every result plus a caller-frame probe in each overridden method",
    "C18": "deterministic simulation: twin universes (NodeMixin vs LightNodeMixin+__slots__) in lock-step under the same seeded history and hook-fault plan; differential on outcome, structure, hook log and the query battery",
})
TECH["C20"] = "deterministic simulation: seeded histories interleaving structural calls (with hook faults) and attribute writes/reads on links, links-to-links and targets; forest reference model + attribute-store model checked on every node after every step"
TECH["C08"] = "deterministic simulation: seeded call histories of a resolver pool sharing the class-wide pattern cache (knob _MAXCACHE randomised, evictions forced), interleaved with tree mutations; every call judged by a stateless regex-free reference glob plus strict/relaxed and glob/get agreement"
TECH["C19"] = "deterministic simulation: snapshot/restore (pickle protocols 0-5, deepcopy) at arbitrary points of seeded histories incl. never-observed (lazy) states, restore in-process and in a fresh interpreter, then mutation of either side; isomorphism, identity-disjointness, consistency and mutual-independence oracles"
TECH["C12"] = "deterministic simulation: one stateful exporter object iterated by several interleaved lazy cursors (seeded scheduler picks which cursor steps), in sessions separated by tree mutations; emitted lines judged against the admitted sub-forest, identifier map checked for injectivity and stability across cursors and sessions"
TECH["C13"] = TECH["C12"] + "; to_file through a real scratch file"
TECH["C14"] = "deterministic simulation: pools of query objects re-issued to search and cachedsearch across seeded mutation/attribute-write histories; reference filtered pre-order + count rule; cached == uncached at every point"
NOTE = {
    "C12": "trusts the harness's admitted-set reference (sim/srch.py ref_preorder) and text prediction; known finding C12-1 is matched by the exact set of extra edges to stopped children",
    "C13": "as C12; identifiers learnt from node lines by position",
    "C14": "fastcache absent: only the pass-through behaviour of the cache layer is observable here",
    "C08": "trusts the reference glob (sim/rglob.py RefGlob, dynamic-programming wildcard match); ASCII names with ignorecase; strict mode only on sibling-unique names",
    "C19": "trusts the reach-order walk pairing original (by model) and copy (by real links); fresh-interpreter restores are sampled in quick tier and complete in thorough tier",
    "C20": "trusts the forest and attribute-store reference models; C01's invariant is reported here as C20's own clause, C03's rollback clauses are judged by C03's check (whose class menus include the link classes), not here",
    "C04": "trusts the harness's reference walks (sim/queries.py ref_nav); the consistency guard (C01) runs first so no query is issued on a corrupt forest",
    "C17": "differential: says the adversarial class behaves like the plain one, not that either is right (C02/C04 say that); probe attribution by caller frame file path",
    "C18": "differential only: absolute correctness of either mixin is C01-C04/C16's business; exporters, search and util helpers are not in the statement and not compared",
    "C01": "trusts the harness's own closure walk (identity only, public .parent/.children); faults limited to hook-raised exceptions and invalid arguments as the property quantifies",
    "C02": "trusts the ForestModel (sim/model.py) as the statement's semantics; fault-free runs only, so no relaxation can hide an ordinary bug",
    "C03": "trusts the ForestModel's hook-trace prediction used to locate the failing step; the four open known findings are matched by exact predicted post-state (C03-1..3) or a narrow shape rule (C03-4, >= 2 failures in one children assignment)",
    "C16": "trusts the model-derived trace for fault-free calls; under faults only the automaton/prefix rules the statement fixes are enforced",
}


def main():
    checks = []
    for prop in sorted(engine.PROPS):
        spec = engine.PROPS[prop]
        checks.append(
            {
                "property_id": prop,
                "quick_cmd": "./check %s --tier quick" % prop,
                "thorough_cmd": "./check %s --tier thorough" % prop,
                "evidence_file": "/verif/evidence/%s.json" % prop,
                "replay_cmd_template": "./check replay {path}",
                "engine": "sim",
                "level_claimed": {
                    "category": spec["level"],
                    "text": spec["title"] + ": " + TECH.get(prop, spec["title"]),
                    "design_ref": "DESIGN.md section 4, " + prop,
                },
                "level_note": NOTE.get(prop, "seeded sampling; see DESIGN.md"),
                "technique": TECH.get(prop, "deterministic simulation with fault injection"),
            }
        )
    na = []
    for prop, reason in sorted({**NOT_APPLICABLE, **PENDING}.items()):
        if prop not in engine.PROPS:
            na.append({"property_id": prop, "reason": reason})
    manifest = {
        "version": 1,
        "setup_cmd": "/venv/bin/python -B /verif/check selftest-setup",
        "hooks": {
            "guard": "ANYTREE_VERIF",
            "enable": "no hook was added to /repo: every seam used (the _pre_/_post_ hook methods, Resolver._match_cache, anytree.resolver._MAXCACHE, ANYTREE_ASSERTIONS, codecs.open) exists in the shipped code; ANYTREE_VERIF is reserved and unused",
            "baseline_off_cmd": "cd /repo && /venv/bin/python -m pytest -ra -q -p no:cacheprovider --timeout=900 --continue-on-collection-errors",
            "source_commits": [],
            "add_only": True,
        },
        "engines": [
            {
                "name": "sim",
                "path": "/verif/sim",
                "serves_properties": sorted(engine.PROPS),
                "kind_free_text": "custom seeded deterministic simulator (stdlib only): operation histories + hook-fault plans executed on real anytree objects in lock-step with reference models; 16 forked workers, one PRNG per run derived from VERIF_SEED; ddmin shrinker; JSON replay files",
            }
        ],
        "checks": checks,
        "notes": "exit 0 = held on everything explored (KNOWN-FINDING lines allowed), 1 = VIOLATION line, 2 = harness error (never a verdict). ./check selftest-determinism and ./check selftest-mutants are the harness's own self-tests.",
        "not_applicable": na,
    }
    path = os.path.join(HERE, "MANIFEST.json")
    with open(path, "w") as f:
        json.dump(manifest, f, indent=1)
        f.write("\n")
    print("wrote", path, "claimed:", " ".join(sorted(engine.PROPS)))


if __name__ == "__main__":
    main()
